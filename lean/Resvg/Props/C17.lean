/-
  C17 — Document size and viewBox mapping follow the SVG viewport rules.
  Models: Resvg/Geom/ViewBox.lean (`ViewBox::to_transform`, `aligned_pos`),
          Resvg/Convert/SvgSize.lean (`resolve_svg_size`, `convert_length`).
  Theorems are over `Rat` (exact arithmetic); the same definitions run on `Float32` in the driver
  and are compared bit for bit with the Rust results.
-/
import Mathlib.Tactic.Linarith
import Mathlib.Tactic.FieldSimp
import Mathlib.Tactic.Ring
import Mathlib.Tactic.Positivity
import Resvg.Geom.ViewBox
import Resvg.Convert.SvgSize

namespace Resvg.Props.C17
open Resvg Resvg.Geom Resvg.Convert

/-- horizontal alignment factor: 0 = xMin, 1/2 = xMid, 1 = xMax -/
def fx : Align → Rat
  | .none | .xMinYMin | .xMinYMid | .xMinYMax => 0
  | .xMidYMin | .xMidYMid | .xMidYMax => 1 / 2
  | .xMaxYMin | .xMaxYMid | .xMaxYMax => 1
/-- vertical alignment factor -/
def fy : Align → Rat
  | .none | .xMinYMin | .xMidYMin | .xMaxYMin => 0
  | .xMinYMid | .xMidYMid | .xMaxYMid => 1 / 2
  | .xMinYMax | .xMidYMax | .xMaxYMax => 1

theorem fx_range (a : Align) : 0 ≤ fx a ∧ fx a ≤ 1 := by cases a <;> simp [fx] <;> norm_num
theorem fy_range (a : Align) : 0 ≤ fy a ∧ fy a ≤ 1 := by cases a <;> simp [fy] <;> norm_num

theorem alignedPos_eq (a : Align) (x y w h : Rat) :
    alignedPos a x y w h = (x + fx a * w, y + fy a * h) := by
  cases a <;> simp [alignedPos, fx, fy] <;> first | trivial | (constructor <;> ring) | ring

/-- the uniform scale chosen by `to_transform` -/
def pick (slice : Bool) (sx sy : Rat) : Rat :=
  if slice then (if sx < sy then sy else sx) else (if sy < sx then sy else sx)

theorem vbt_eq (a : Align) (slice : Bool) (vx vy vw vh W H : Rat) :
    viewBoxToTransform a slice vx vy vw vh W H =
      (let s : Rat × Rat := if a = Align.none then (W / vw, H / vh)
                            else (pick slice (W / vw) (H / vh), pick slice (W / vw) (H / vh))
       { sx := s.1, sy := s.2,
         tx := -vx * s.1 + fx a * (W - vw * s.1),
         ty := -vy * s.2 + fy a * (H - vh * s.2) }) := by
  unfold viewBoxToTransform
  simp only [alignedPos_eq, Flt.rat_div, Flt.rat_mul, Flt.rat_neg, Flt.rat_sub, Flt.rat_lt, pick,
    decide_eq_true_eq]

section
variable (a : Align) (vx vy vw vh W H : Rat)

/-- image of the viewBox's left / right / top / bottom edge under the computed transform -/
def imgL (t : ScaleTranslate Rat) : Rat := vx * t.sx + t.tx
def imgR (t : ScaleTranslate Rat) : Rat := (vx + vw) * t.sx + t.tx
def imgT (t : ScaleTranslate Rat) : Rat := vy * t.sy + t.ty
def imgB (t : ScaleTranslate Rat) : Rat := (vy + vh) * t.sy + t.ty

/-- Unless `none`, the scale is uniform. -/
theorem C17_uniform (slice : Bool) (ha : a ≠ Align.none) :
    (viewBoxToTransform a slice vx vy vw vh W H).sx = (viewBoxToTransform a slice vx vy vw vh W H).sy := by
  rw [vbt_eq]; simp [ha]

theorem pick_meet_le (hvw : 0 < vw) (hvh : 0 < vh) :
    vw * pick false (W / vw) (H / vh) ≤ W ∧ vh * pick false (W / vw) (H / vh) ≤ H := by
  unfold pick; simp only [Bool.false_eq_true, if_false]
  have h1 : vw * (W / vw) = W := by field_simp
  have h2 : vh * (H / vh) = H := by field_simp
  split
  · rename_i h
    constructor
    · have := mul_le_mul_of_nonneg_left (le_of_lt h) (le_of_lt hvw); linarith
    · linarith
  · rename_i h
    constructor
    · linarith
    · have := mul_le_mul_of_nonneg_left (not_lt.mp h) (le_of_lt hvh); linarith

theorem pick_slice_ge (hvw : 0 < vw) (hvh : 0 < vh) :
    W ≤ vw * pick true (W / vw) (H / vh) ∧ H ≤ vh * pick true (W / vw) (H / vh) := by
  unfold pick; simp only [if_true]
  have h1 : vw * (W / vw) = W := by field_simp
  have h2 : vh * (H / vh) = H := by field_simp
  split
  · rename_i h
    constructor
    · have := mul_le_mul_of_nonneg_left (le_of_lt h) (le_of_lt hvw); linarith
    · linarith
  · rename_i h
    constructor
    · linarith
    · have := mul_le_mul_of_nonneg_left (not_lt.mp h) (le_of_lt hvh); linarith

/-- meet: the image of the viewBox lies inside the viewport `[0,W] × [0,H]`, for all 9 alignments. -/
theorem C17_meet_inside (ha : a ≠ Align.none) (hvw : 0 < vw) (hvh : 0 < vh) :
    let t := viewBoxToTransform a false vx vy vw vh W H
    0 ≤ imgL vx t ∧ imgR vx vw t ≤ W ∧ 0 ≤ imgT vy t ∧ imgB vy vh t ≤ H := by
  intro t
  have ht : t = _ := vbt_eq a false vx vy vw vh W H
  simp only [ha, if_false] at ht
  obtain ⟨hw, hh⟩ := pick_meet_le vw vh W H hvw hvh
  obtain ⟨hx0, hx1⟩ := fx_range a
  obtain ⟨hy0, hy1⟩ := fy_range a
  rw [ht]; simp only [imgL, imgR, imgT, imgB]
  set s := pick false (W / vw) (H / vh)
  refine ⟨?_, ?_, ?_, ?_⟩
  · nlinarith [mul_nonneg hx0 (sub_nonneg.mpr hw)]
  · nlinarith [mul_le_mul_of_nonneg_right hx1 (sub_nonneg.mpr hw)]
  · nlinarith [mul_nonneg hy0 (sub_nonneg.mpr hh)]
  · nlinarith [mul_le_mul_of_nonneg_right hy1 (sub_nonneg.mpr hh)]

/-- slice: the image of the viewBox covers the viewport. -/
theorem C17_slice_covers (ha : a ≠ Align.none) (hvw : 0 < vw) (hvh : 0 < vh) :
    let t := viewBoxToTransform a true vx vy vw vh W H
    imgL vx t ≤ 0 ∧ W ≤ imgR vx vw t ∧ imgT vy t ≤ 0 ∧ H ≤ imgB vy vh t := by
  intro t
  have ht : t = _ := vbt_eq a true vx vy vw vh W H
  simp only [ha, if_false] at ht
  obtain ⟨hw, hh⟩ := pick_slice_ge vw vh W H hvw hvh
  obtain ⟨hx0, hx1⟩ := fx_range a
  obtain ⟨hy0, hy1⟩ := fy_range a
  rw [ht]; simp only [imgL, imgR, imgT, imgB]
  set s := pick true (W / vw) (H / vh)
  refine ⟨?_, ?_, ?_, ?_⟩
  · nlinarith [mul_nonneg hx0 (sub_nonneg.mpr hw)]
  · nlinarith [mul_le_mul_of_nonneg_right hx1 (sub_nonneg.mpr hw)]
  · nlinarith [mul_nonneg hy0 (sub_nonneg.mpr hh)]
  · nlinarith [mul_le_mul_of_nonneg_right hy1 (sub_nonneg.mpr hh)]

/-- meet is the *largest* uniform scale that fits and slice the *smallest* that covers: one of the
    two extents matches the viewport exactly. -/
theorem C17_tight (slice : Bool) (hvw : 0 < vw) (hvh : 0 < vh) :
    vw * pick slice (W / vw) (H / vh) = W ∨ vh * pick slice (W / vw) (H / vh) = H := by
  have h1 : vw * (W / vw) = W := by field_simp
  have h2 : vh * (H / vh) = H := by field_simp
  unfold pick; cases slice <;> simp only [Bool.false_eq_true, if_false, if_true] <;> split <;> simp [h1, h2]

/-- Alignment: with factor 0 the left edges coincide, with 1/2 the centres, with 1 the right edges
    (`imgL + fx·(…)`): precisely, the free space `W − vw·s` is split in the ratio `fx : 1 − fx`. -/
theorem C17_aligned (slice : Bool) (ha : a ≠ Align.none) :
    let t := viewBoxToTransform a slice vx vy vw vh W H
    imgL vx t = fx a * (W - (imgR vx vw t - imgL vx t)) ∧
    imgT vy t = fy a * (H - (imgB vy vh t - imgT vy t)) := by
  intro t
  have ht : t = _ := vbt_eq a slice vx vy vw vh W H
  simp only [ha, if_false] at ht
  rw [ht]; simp only [imgL, imgR, imgT, imgB]
  constructor <;> ring

/-- corollaries for the three named positions -/
theorem C17_xMin_left (slice : Bool) (ha : a ≠ Align.none) (h : fx a = 0) :
    imgL vx (viewBoxToTransform a slice vx vy vw vh W H) = 0 := by
  have := (C17_aligned a vx vy vw vh W H slice ha).1; simp only [h, zero_mul] at this; exact this
theorem C17_xMax_right (slice : Bool) (ha : a ≠ Align.none) (h : fx a = 1) :
    imgR vx vw (viewBoxToTransform a slice vx vy vw vh W H) = W := by
  have := (C17_aligned a vx vy vw vh W H slice ha).1; simp only [h, one_mul] at this; linarith
theorem C17_xMid_centre (slice : Bool) (ha : a ≠ Align.none) (h : fx a = 1 / 2) :
    imgL vx (viewBoxToTransform a slice vx vy vw vh W H)
      + imgR vx vw (viewBoxToTransform a slice vx vy vw vh W H) = W := by
  have := (C17_aligned a vx vy vw vh W H slice ha).1; rw [h] at this; linarith

/-- `none`: the viewBox is mapped onto the viewport exactly (non-uniform scale). -/
theorem C17_none_exact (slice : Bool) (hvw : 0 < vw) (hvh : 0 < vh) :
    let t := viewBoxToTransform Align.none slice vx vy vw vh W H
    imgL vx t = 0 ∧ imgR vx vw t = W ∧ imgT vy t = 0 ∧ imgB vy vh t = H := by
  intro t
  have ht : t = _ := vbt_eq Align.none slice vx vy vw vh W H
  simp only [if_true, fx, fy] at ht
  rw [ht]; simp only [imgL, imgR, imgT, imgB]
  have h1 : vw * (W / vw) = W := by field_simp
  have h2 : vh * (H / vh) = H := by field_simp
  refine ⟨by ring, by linarith [h1], by ring, by linarith [h2]⟩

theorem pick_scale (slice : Bool) (k sx sy : Rat) (hk : 0 < k) :
    pick slice (k * sx) (k * sy) = k * pick slice sx sy := by
  unfold pick
  have e1 : (k * sx < k * sy) ↔ sx < sy := by constructor <;> intro h <;> nlinarith
  have e2 : (k * sy < k * sx) ↔ sy < sx := by constructor <;> intro h <;> nlinarith
  cases slice <;> simp only [Bool.false_eq_true, if_false, if_true, e1, e2] <;> split <;> rfl

/-- Scaling the viewport by `k` scales the whole transform by `k`: rendering a viewBox document
    into a `k·W × k·H` viewport equals post-scaling the `W × H` mapping by `k`. -/
theorem C17_scale_commutes (slice : Bool) (k : Rat) (hk : 0 < k) :
    let t := viewBoxToTransform a slice vx vy vw vh W H
    let t' := viewBoxToTransform a slice vx vy vw vh (k * W) (k * H)
    t'.sx = k * t.sx ∧ t'.sy = k * t.sy ∧ t'.tx = k * t.tx ∧ t'.ty = k * t.ty := by
  intro t t'
  have ht : t = _ := vbt_eq a slice vx vy vw vh W H
  have ht' : t' = _ := vbt_eq a slice vx vy vw vh (k * W) (k * H)
  have d1 : k * W / vw = k * (W / vw) := by ring
  have d2 : k * H / vh = k * (H / vh) := by ring
  rw [ht, ht']
  by_cases ha : a = Align.none
  · subst ha; simp only [if_true, fx, fy, d1, d2]; refine ⟨trivial, trivial, by ring, by ring⟩
  · simp only [ha, if_false, d1, d2, pick_scale slice k _ _ hk]
    refine ⟨trivial, trivial, by ring, by ring⟩

end

/-! ### size resolution (`resolve_svg_size` in exact arithmetic: `r = r64 = id`) -/

/-- absolute units at the configured DPI -/
theorem C17_units (n : Rat) (base : Rat) (env : LenEnv) :
    convertLength id ⟨n, .inch⟩ base env = n * env.dpi ∧
    convertLength id ⟨n, .cm⟩ base env = n * env.dpi / (254 / 100) ∧
    convertLength id ⟨n, .mm⟩ base env = n * env.dpi / (254 / 10) ∧
    convertLength id ⟨n, .pt⟩ base env = n * env.dpi / 72 ∧
    convertLength id ⟨n, .pc⟩ base env = n * env.dpi / 6 ∧
    convertLength id ⟨n, .px⟩ base env = n ∧
    convertLength id ⟨n, .none⟩ base env = n ∧
    convertLength id ⟨n, .percent⟩ base env = base * n / 100 := by
  simp [convertLength]

/-- With a viewBox, a percentage (or a missing attribute = 100%) refers to the viewBox side. -/
theorem C17_size_percent_of_viewBox (p q : Rat) (x y vw vh dw dh : Rat) (env : LenEnv) :
    (resolveSvgSizeCore id id ⟨some ⟨p, .percent⟩, some ⟨q, .percent⟩, some (x, y, vw, vh), dw, dh, env⟩).1
      = sizeFromWh (vw * (p / 100)) (vh * (q / 100)) := by
  simp [resolveSvgSizeCore]

/-- Without a viewBox, a percentage refers to `Options::default_size`, and the caller is told to
    fall back to the content's bounding box (`restore_viewbox`). -/
theorem C17_size_percent_of_default (p q dw dh : Rat) (env : LenEnv) :
    resolveSvgSizeCore id id ⟨some ⟨p, .percent⟩, some ⟨q, .percent⟩, none, dw, dh, env⟩
      = (sizeFromWh (p / 100 * dw) (q / 100 * dh), true) := by
  simp [resolveSvgSizeCore, convertLength]

/-- Missing `width`/`height` mean 100 %. -/
theorem C17_size_missing_is_100 (vb : Option (Rat × Rat × Rat × Rat)) (dw dh : Rat) (env : LenEnv) :
    resolveSvgSizeCore id id ⟨none, none, vb, dw, dh, env⟩
      = resolveSvgSizeCore id id ⟨some ⟨100, .percent⟩, some ⟨100, .percent⟩, vb, dw, dh, env⟩ := by
  simp [resolveSvgSizeCore, pct100]

/-- Absolute lengths are taken as they are (no viewBox influence, no restore). -/
theorem C17_size_absolute (w h : Length) (hw : w.unit ≠ .percent) (hh : h.unit ≠ .percent)
    (vb : Option (Rat × Rat × Rat × Rat)) (dw dh : Rat) (env : LenEnv) (b1 b2 : Rat) :
    resolveSvgSizeCore id id ⟨some w, some h, vb, dw, dh, env⟩
      = (sizeFromWh (convertLength id w b1 env) (convertLength id h b2 env), false) := by
  have cl : ∀ (l : Length) (b b' : Rat), l.unit ≠ .percent → convertLength id l b env = convertLength id l b' env := by
    intro l b b' hl; cases l with | mk n u => cases u <;> simp_all [convertLength]
  cases vb with
  | none => simp [resolveSvgSizeCore, hw, hh, cl w 100 b1 hw, cl h 100 b2 hh]
  | some v =>
    obtain ⟨x, y, vw, vh⟩ := v
    simp [resolveSvgSizeCore, hw, hh, cl w vw b1 hw, cl h vh b2 hh]

/-- The result is an error exactly when a resolved side is not a positive finite number. -/
theorem C17_size_error_iff (w h : Rat) :
    sizeFromWh w h = none ↔ ¬ (0 < w ∧ 0 < h ∧ w ≤ F32.maxFinite ∧ h ≤ F32.maxFinite) := by
  unfold sizeFromWh; split <;> simp_all

/-! ### non-vacuity -/
example : (viewBoxToTransform Align.xMidYMid false (0 : Rat) 0 100 50 200 200).tx = 0 ∧
          (viewBoxToTransform Align.xMidYMid false (0 : Rat) 0 100 50 200 200).ty = 50 := by
  constructor <;> decide +kernel
example : resolveSvgSizeCore id id ⟨some ⟨50, .percent⟩, none, none, 400, 600, ⟨96, 12⟩⟩ = (some (200, 600), true) := by
  decide +kernel

/-- the attribute filter of fix a254553 changes nothing for lengths that fit into `f32` -/
theorem C17_size_filter_transparent (r r64 : Rat → Rat) (i : Convert.SizeInput)
    (hw : ∀ l, i.width = some l → Convert.fitsF32 r l = true)
    (hh : ∀ l, i.height = some l → Convert.fitsF32 r l = true) :
    Convert.resolveSvgSize r r64 i = Convert.resolveSvgSizeCore r r64 i := by
  unfold Convert.resolveSvgSize
  have h1 : i.width.filter (Convert.fitsF32 r) = i.width := by
    cases hwv : i.width with
    | none => rfl
    | some l => simp [Option.filter, hw l hwv]
  have h2 : i.height.filter (Convert.fitsF32 r) = i.height := by
    cases hhv : i.height with
    | none => rfl
    | some l => simp [Option.filter, hh l hhv]
  rw [h1, h2]

/-! ### the image route implements the same rule

`image.rs` does not call `ViewBox::to_transform`: it fits the image size into the element rect
(`fit_view_box`), places it with `aligned_pos`, stores it as a left/top/right/bottom rect and derives
scale and translation from that rect.  Over exact arithmetic the result is the view-box mapping of the
image's own rect `0 0 aw ah` onto the element rect, moved to the rect's position — so everything proved
above about `to_transform` (uniform scale, meet inside, slice covers, alignment) holds for images too. -/

/-- the scale pair the view-box rule chooses for mapping `aw x ah` onto `w x h` -/
def ruleScale (a : Align) (slice : Bool) (w h aw ah : Rat) : Rat × Rat :=
  if a = Align.none then (w / aw, h / ah) else (pick slice (w / aw) (h / ah), pick slice (w / aw) (h / ah))

theorem pick_pos (slice : Bool) (sx sy : Rat) (hx : 0 < sx) (hy : 0 < sy) : 0 < pick slice sx sy := by
  unfold pick; split_ifs <;> assumption

theorem ruleScale_pos (a : Align) (slice : Bool) (w h aw ah : Rat)
    (hw : 0 < w) (hh : 0 < h) (haw : 0 < aw) (hah : 0 < ah) :
    0 < (ruleScale a slice w h aw ah).1 ∧ 0 < (ruleScale a slice w h aw ah).2 := by
  have h1 : 0 < w / aw := div_pos hw haw
  have h2 : 0 < h / ah := div_pos hh hah
  unfold ruleScale; split_ifs
  · exact ⟨h1, h2⟩
  · exact ⟨pick_pos _ _ _ h1 h2, pick_pos _ _ _ h1 h2⟩

/-- `fit_view_box` returns the image size scaled by the rule's scale pair -/
theorem fitViewBox_eq (a : Align) (slice : Bool) (w h aw ah : Rat)
    (hw : 0 < w) (hh : 0 < h) (haw : 0 < aw) (hah : 0 < ah) :
    fitViewBox a slice aw ah w h =
      some (aw * (ruleScale a slice w h aw ah).1, ah * (ruleScale a slice w h aw ah).2) := by
  unfold fitViewBox validSize ruleScale
  simp only [Flt.rat_mul, Flt.rat_div, Flt.rat_lt, Flt.rat_le, Flt.rat_ofNat, Nat.cast_zero]
  by_cases hn : a = Align.none
  · simp only [hn, if_true]; congr 1; ext <;> simp <;> field_simp
  · simp only [hn, if_false]
    have key : h * aw / ah < w ↔ h / ah < w / aw := by
      rw [div_lt_iff₀ hah, div_lt_div_iff₀ hah haw]
    have key2 : w < h * aw / ah ↔ w / aw < h / ah := by
      rw [lt_div_iff₀ hah, div_lt_div_iff₀ haw hah]
    have p1 : 0 < h * aw / ah := by positivity
    have p2 : 0 < w * ah / aw := by positivity
    cases slice
    · simp only [Bool.false_eq_true, if_false, pick]
      by_cases hc : w ≤ h * aw / ah
      · have hnot : ¬ (h / ah < w / aw) := by rw [← key]; linarith
        simp only [hc, decide_true, Bool.not_true, Bool.false_eq_true, if_false, hw, p2, Bool.and_self, if_true, hnot]
        congr 1; ext <;> simp <;> field_simp
      · have hlt : h / ah < w / aw := by rw [← key]; linarith
        simp only [hc, decide_false, Bool.not_false, if_true, p1, hh, decide_true, Bool.and_self, hlt]
        congr 1; ext <;> simp <;> field_simp
    · simp only [if_true, pick]
      by_cases hc : h * aw / ah ≤ w
      · have hnot : ¬ (w / aw < h / ah) := by rw [← key2]; linarith
        simp only [hc, decide_true, Bool.not_true, Bool.false_eq_true, if_false, hw, p2, Bool.and_self, if_true, hnot]
        congr 1; ext <;> simp <;> field_simp
      · have hlt : w / aw < h / ah := by rw [← key2]; linarith
        simp only [hc, decide_false, Bool.not_false, if_true, p1, hh, decide_true, Bool.and_self, hlt]
        congr 1; ext <;> simp <;> field_simp

/-- **The image route is the view-box rule**: for an image of size `aw x ah` in the element rect
    `x y w h`, the image group's transform is the view-box mapping of `0 0 aw ah` onto `w x h`, moved to
    `(x, y)` — for all ten alignments with meet, slice and none. -/
theorem C17_image_route_is_viewbox_rule (a : Align) (slice : Bool) (x y w h aw ah : Rat)
    (hw : 0 < w) (hh : 0 < h) (haw : 0 < aw) (hah : 0 < ah) :
    ∃ t, imageTransform a slice (LTRB.fromXywh x y w h) aw ah = some t ∧
      t.sx = (viewBoxToTransform a slice 0 0 aw ah w h).sx ∧
      t.sy = (viewBoxToTransform a slice 0 0 aw ah w h).sy ∧
      t.tx = x + (viewBoxToTransform a slice 0 0 aw ah w h).tx ∧
      t.ty = y + (viewBoxToTransform a slice 0 0 aw ah w h).ty := by
  have hw' : (LTRB.fromXywh x y w h).width = w := by
    simp [LTRB.fromXywh, LTRB.width]
  have hh' : (LTRB.fromXywh x y w h).height = h := by
    simp [LTRB.fromXywh, LTRB.height]
  obtain ⟨hs1, hs2⟩ := ruleScale_pos a slice w h aw ah hw hh haw hah
  have hf1 : 0 < aw * (ruleScale a slice w h aw ah).1 := mul_pos haw hs1
  have hf2 : 0 < ah * (ruleScale a slice w h aw ah).2 := mul_pos hah hs2
  unfold imageTransform
  rw [hw', hh', fitViewBox_eq a slice w h aw ah hw hh haw hah]
  simp only [alignedPos_eq, LTRB.fromXywh, LTRB.isNonZero, LTRB.width, LTRB.height, LTRB.x, LTRB.y,
    Flt.rat_add, Flt.rat_sub, Flt.rat_lt, Flt.rat_div]
  have c1 : ∀ p : Rat, p < aw * (ruleScale a slice w h aw ah).1 + p := fun p => by linarith
  have c2 : ∀ p : Rat, p < ah * (ruleScale a slice w h aw ah).2 + p := fun p => by linarith
  simp only [c1, c2, decide_true, Bool.and_self, if_true]
  refine ⟨_, rfl, ?_, ?_, ?_, ?_⟩
  all_goals rw [vbt_eq]
  all_goals simp only [ruleScale]
  all_goals split_ifs <;> simp <;> field_simp

/-- hence, with `meet`, the whole image lands inside the element rect `x y w h` … -/
theorem C17_image_meet_inside (a : Align) (ha : a ≠ Align.none) (x y w h aw ah : Rat)
    (hw : 0 < w) (hh : 0 < h) (haw : 0 < aw) (hah : 0 < ah) :
    ∃ t, imageTransform a false (LTRB.fromXywh x y w h) aw ah = some t ∧
      x ≤ 0 * t.sx + t.tx ∧ aw * t.sx + t.tx ≤ x + w ∧ y ≤ 0 * t.sy + t.ty ∧ ah * t.sy + t.ty ≤ y + h := by
  obtain ⟨t, ht, h1, h2, h3, h4⟩ := C17_image_route_is_viewbox_rule a false x y w h aw ah hw hh haw hah
  have m := C17_meet_inside a 0 0 aw ah w h ha haw hah
  simp only [imgL, imgR, imgT, imgB, zero_add] at m
  refine ⟨t, ht, ?_, ?_, ?_, ?_⟩ <;> rw [h1, h3] at * <;> first | (rw [h1, h3]; linarith [m.1, m.2.1]) | skip
  all_goals (first | rw [h2, h4] | skip)
  all_goals linarith [m.1, m.2.1, m.2.2.1, m.2.2.2]

/-- … and with `slice` it covers the element rect (what is outside is removed by the clip group) -/
theorem C17_image_slice_covers (a : Align) (ha : a ≠ Align.none) (x y w h aw ah : Rat)
    (hw : 0 < w) (hh : 0 < h) (haw : 0 < aw) (hah : 0 < ah) :
    ∃ t, imageTransform a true (LTRB.fromXywh x y w h) aw ah = some t ∧
      0 * t.sx + t.tx ≤ x ∧ x + w ≤ aw * t.sx + t.tx ∧ 0 * t.sy + t.ty ≤ y ∧ y + h ≤ ah * t.sy + t.ty := by
  obtain ⟨t, ht, h1, h2, h3, h4⟩ := C17_image_route_is_viewbox_rule a true x y w h aw ah hw hh haw hah
  have m := C17_slice_covers a 0 0 aw ah w h ha haw hah
  simp only [imgL, imgR, imgT, imgB, zero_add] at m
  refine ⟨t, ht, ?_, ?_, ?_, ?_⟩
  all_goals (first | rw [h1, h3] | rw [h2, h4])
  all_goals linarith [m.1, m.2.1, m.2.2.1, m.2.2.2]

/-- the hypotheses are satisfiable and the rule is not trivial: a 2x1 image in a 10x10 rect at (3, 4),
    xMidYMid meet, is scaled by 5 and centred vertically -/
example : (imageTransform Align.xMidYMid false (LTRB.fromXywh (3 : Rat) 4 10 10) 2 1).map
    (fun t => (t.sx, t.sy, t.tx, t.ty)) = some (5, 5, 3, 4 + 5 / 2) := by decide +kernel

end Resvg.Props.C17
