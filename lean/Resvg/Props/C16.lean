/-
  C16 — Filters keep pixels valid (channel ≤ alpha) and identity primitives are no-ops.
  Property theorems only; helper lemmas live in Resvg/Lemmas, the exhaustive kernel decisions
  in Resvg/Props/C16/H*.lean.

  Model: Resvg/Render/Pixel.lean (bit-exact with crates/resvg/src/filter/*.rs — exhaustively for
  the 8-bit functions, see the correspondence `vh corr C16`).
-/
import Resvg.Lemmas.Basic
import Resvg.Props.C16.H1
import Resvg.Props.C16.H2
import Resvg.Props.C16.H3
import Resvg.Render.ColorSpace
import Resvg.Generated.PaintedColours

namespace Resvg.Props.C16
open Resvg.Pixel Resvg.F32 Resvg.Lemmas

/-! ### 8-bit facts (whole domain, kernel-decided) -/

/-- `multiply_alpha` always yields a channel ≤ alpha (valid premultiplied colour). -/
theorem C16_mul_valid (c a : Nat) (hc : c < 256) (ha : a < 256) : mulAlpha c a ≤ a := by
  have h := all_range (all_range mulValid_all a ha) c hc
  exact Nat.le_of_ble_eq_true h

/-- demultiply followed by multiply is the identity on every valid premultiplied channel. -/
theorem C16_demul_mul_id (c a : Nat) (ha : a < 256) (hca : c ≤ a) :
    mulAlpha (demulAlpha c a) a = c := by
  have h := all_range (all_range demulMul_all a ha) c (Nat.lt_succ_of_le hca)
  exact Nat.eq_of_beq_eq_true h

theorem mulAlpha_byte (c a : Nat) : mulAlpha c a ≤ 255 := by
  unfold mulAlpha
  refine fastRnd_bound (P := (· ≤ 255)) _ _ _ ?_; intro _ _
  refine fastRnd_bound (P := (· ≤ 255)) _ _ _ ?_; intro _ _
  simp only [strict_eq]
  refine fastRnd_bound (P := (· ≤ 255)) _ _ _ ?_; intro _ _
  exact Nat.min_le_left _ _

theorem demulAlpha_byte (c a : Nat) : demulAlpha c a ≤ 255 := by
  unfold demulAlpha
  split
  · split <;> decide
  · refine fastRnd_bound (P := (· ≤ 255)) _ _ _ ?_; intro _ _
    refine fastRnd_bound (P := (· ≤ 255)) _ _ _ ?_; intro _ _
    simp only [strict_eq]
    refine fastRnd_bound (P := (· ≤ 255)) _ _ _ ?_; intro _ _
    exact Nat.min_le_left _ _

theorem lut_byte_srgb (c : Nat) : toSrgb c ≤ 255 := by
  have h := lutBytes_ok
  simp only [lutBytes, Bool.and_eq_true, List.all_eq_true] at h
  unfold toSrgb lutGet
  rcases getD_mem_or_default Resvg.Generated.linearToSrgb c 0 with hm | hd
  · exact Nat.le_of_ble_eq_true (h.1.1.2 _ hm)
  · rw [hd]; decide

theorem lut_byte_linear (c : Nat) : toLinear c ≤ 255 := by
  have h := lutBytes_ok
  simp only [lutBytes, Bool.and_eq_true, List.all_eq_true] at h
  unfold toLinear lutGet
  rcases getD_mem_or_default Resvg.Generated.srgbToLinear c 0 with hm | hd
  · exact Nat.le_of_ble_eq_true (h.1.1.1 _ hm)
  · rw [hd]; decide

/-- `PixmapExt::into_srgb` keeps every pixel valid — for any content of the LUT. -/
theorem C16_into_srgb_valid (c a : Nat) (ha : a < 256) : pixIntoSrgb c a ≤ a :=
  C16_mul_valid _ _ (Nat.lt_succ_of_le (lut_byte_srgb _)) ha

/-- `PixmapExt::into_linear_rgb` keeps every pixel valid. -/
theorem C16_into_linear_valid (c a : Nat) (ha : a < 256) : pixIntoLinear c a ≤ a :=
  C16_mul_valid _ _ (Nat.lt_succ_of_le (lut_byte_linear _)) ha

/-! ### helpers about `toU8`, `bound` -/

theorem toU8_le_255 (q : Rat) : toU8 q ≤ 255 := by
  unfold toU8
  split
  · exact Nat.zero_le _
  · split
    · exact Nat.le_refl _
    · rename_i h1 h2
      have h : q.floor ≤ 255 := by
        have := rat_floor_mono (le_of_lt (not_le.mp h2))
        simpa [floor_255] using this
      omega

theorem toU8_mono {p q : Rat} (h : p ≤ q) : toU8 p ≤ toU8 q := by
  unfold toU8
  by_cases hp0 : p ≤ 0
  · simp [hp0]
  · have hq0 : ¬ q ≤ 0 := fun hq => hp0 (le_trans h hq)
    simp only [hp0, hq0, if_false]
    by_cases hq : (255 : Rat) ≤ q
    · simp only [hq, if_true]
      split
      · exact Nat.le_refl _
      · rename_i h2
        have h3 : p.floor ≤ 255 := by
          have := rat_floor_mono (le_of_lt (not_le.mp h2)); simpa [floor_255] using this
        omega
    · have hp : ¬ (255 : Rat) ≤ p := fun hp => hq (le_trans hp h)
      simp only [hp, hq, if_false]
      have := rat_floor_mono h
      omega

theorem bound_le_hi {lo v hi : Rat} (h : lo ≤ hi) : bound lo v hi ≤ hi := by
  unfold bound; split
  · exact le_refl _
  · split
    · exact h
    · rename_i h1 _; exact not_lt.mp h1

theorem bound_ge_lo {lo v hi : Rat} (h : lo ≤ hi) : lo ≤ bound lo v hi := by
  unfold bound; split
  · exact h
  · split
    · exact le_refl _
    · rename_i _ h2; exact not_lt.mp h2

/-! ### general theorems: for every monotone rounding operator `r`
    (`F32.rnd` is the IEEE instance used by the executable model) -/

/-- Arithmetic composite: every written pixel is valid premultiplied RGBA, for all `k1…k4` and
    all inputs (valid or not). -/
theorem C16_arith_valid (r : Rat → Rat) (hr : ∀ x y, x ≤ y → r x ≤ r y)
    (k1 k2 k3 k4 : Rat) (p q o : Px) (h : arithPixel r k1 k2 k3 k4 p q = some o) : o.valid := by
  unfold arithPixel at h
  simp only at h
  split at h
  · cases h
  · injection h with h; subst h
    have ha0 : (0 : Rat) ≤ arithCalc r k1 k2 k3 k4 p.a q.a 1 := bound_ge_lo (by norm_num)
    have chan : ∀ i1 i2, toU8 (r (arithCalc r k1 k2 k3 k4 i1 i2 (arithCalc r k1 k2 k3 k4 p.a q.a 1) * 255))
        ≤ toU8 (r (arithCalc r k1 k2 k3 k4 p.a q.a 1 * 255)) := by
      intro i1 i2
      apply toU8_mono; apply hr
      have : arithCalc r k1 k2 k3 k4 i1 i2 (arithCalc r k1 k2 k3 k4 p.a q.a 1)
          ≤ arithCalc r k1 k2 k3 k4 p.a q.a 1 := by
        conv_lhs => unfold arithCalc
        exact bound_le_hi ha0
      linarith
    exact ⟨chan _ _, chan _ _, chan _ _, toU8_le_255 _⟩

theorem mulPx_valid (p : Px) (hr : p.r ≤ 255) (hg : p.g ≤ 255) (hb : p.b ≤ 255) (ha : p.a ≤ 255) :
    (mulPx p).valid := by
  unfold mulPx Px.valid
  exact ⟨C16_mul_valid _ _ (by omega) (by omega), C16_mul_valid _ _ (by omega) (by omega),
         C16_mul_valid _ _ (by omega) (by omega), ha⟩

theorem fromNormalized_byte (r : Rat → Rat) (c : Rat) : fromNormalized r c ≤ 255 := toU8_le_255 _

/-- feColorMatrix (type=matrix): the result of `apply_color_matrix` is valid for *every* matrix,
    every input pixel and every rounding operator. -/
theorem C16_color_matrix_valid (r : Rat → Rat) (m : List Rat) (p : Px) :
    (applyColorMatrix r m p).valid := by
  unfold applyColorMatrix
  apply mulPx_valid <;> simp only [colorMatrix, matrixRow] <;> exact fromNormalized_byte _ _

/-- feComponentTransfer: each transfer function returns a byte, hence the re-multiplied pixel is valid. -/
theorem C16_transfer_valid (fr fg fb fa : Nat → Nat)
    (hfr : ∀ c, fr c ≤ 255) (hfg : ∀ c, fg c ≤ 255) (hfb : ∀ c, fb c ≤ 255) (hfa : ∀ c, fa c ≤ 255)
    (p : Px) :
    (mulPx { r := fr (demulPx p).r, g := fg (demulPx p).g, b := fb (demulPx p).b, a := fa (demulPx p).a }).valid :=
  mulPx_valid _ (hfr _) (hfg _) (hfb _) (hfa _)

theorem transferLinear_byte (r : Rat → Rat) (s i : Rat) (c : Nat) : transferLinear r s i c ≤ 255 :=
  fromNormalized_byte _ _
theorem transferDiscrete_byte (r : Rat → Rat) (v : List Rat) (c : Nat) : transferDiscrete r v c ≤ 255 :=
  fromNormalized_byte _ _
theorem transferTable_byte (r : Rat → Rat) (v : List Rat) (c : Nat) : transferTable r v c ≤ 255 := by
  unfold transferTable; simp only; split <;> exact fromNormalized_byte _ _

/-- feMorphology: erode and dilate of valid pixels are valid (any window, any size). -/
theorem C16_erode_valid (ps : List Px) (h : ∀ p ∈ ps, p.valid) : (erode ps).valid := by
  unfold erode
  suffices H : ∀ (acc : Px), acc.valid → (ps.foldl (fun acc p =>
      ({ r := min p.r acc.r, g := min p.g acc.g, b := min p.b acc.b, a := min p.a acc.a } : Px)) acc).valid by
    exact H _ ⟨by decide, by decide, by decide, by decide⟩
  induction ps with
  | nil => intro acc hacc; simpa using hacc
  | cons p ps ih =>
    intro acc hacc
    simp only [List.foldl_cons]
    apply ih (fun q hq => h q (List.mem_cons_of_mem _ hq))
    have hp := h p (List.mem_cons_self)
    unfold Px.valid at *
    simp only
    omega

theorem C16_dilate_valid (ps : List Px) (h : ∀ p ∈ ps, p.valid) : (dilate ps).valid := by
  unfold dilate
  suffices H : ∀ (acc : Px), acc.valid → (ps.foldl (fun acc p =>
      ({ r := max p.r acc.r, g := max p.g acc.g, b := max p.b acc.b, a := max p.a acc.a } : Px)) acc).valid by
    exact H _ ⟨by decide, by decide, by decide, by decide⟩
  induction ps with
  | nil => intro acc hacc; simpa using hacc
  | cons p ps ih =>
    intro acc hacc
    simp only [List.foldl_cons]
    apply ih (fun q hq => h q (List.mem_cons_of_mem _ hq))
    have hp := h p (List.mem_cons_self)
    unfold Px.valid at *
    simp only
    omega

/-- feConvolveMatrix: the final clamp makes every output pixel valid, for every kernel, divisor,
    bias and both alpha modes, for every rounding operator that is monotone, idempotent and fixes
    0 and 1 (all true of IEEE round-to-nearest). -/
theorem C16_convolve_valid (r : Rat → Rat) (hr : ∀ x y, x ≤ y → r x ≤ r y)
    (hr0 : r 0 = 0) (hr1 : r 1 = 1) (hrr : ∀ x, r (r x) = r x)
    (pa : Bool) (divisor bias sR sG sB sA : Rat) (inA : Nat) :
    (convolveFinish r pa divisor bias sR sG sB sA inA).valid := by
  unfold convolveFinish Px.valid
  simp only
  have hb0 : ∀ v : Rat, (0 : Rat) ≤ bound 0 v 1 := fun v => bound_ge_lo (by norm_num)
  have hb1 : ∀ v : Rat, bound 0 v 1 ≤ 1 := fun v => bound_le_hi (by norm_num)
  have hmono : ∀ u v : Rat, u ≤ v → r (u * 255) + 1 / 2 ≤ r (v * 255) + 1 / 2 := by
    intro u v huv; have := hr (u * 255) (v * 255) (by linarith); linarith
  -- the bounded alpha is a fixed point of `r` whenever the unbounded one is
  have hfix : ∀ v : Rat, r v = v → r (bound 0 v 1) = bound 0 v 1 := by
    intro v hv; unfold bound; split
    · exact hr1
    · split
      · exact hr0
      · exact hv
  refine ⟨?_, ?_, ?_, toU8_le_255 _⟩ <;>
  · apply toU8_mono; apply hr; apply hmono
    cases pa
    · simp only [Bool.false_eq_true, if_false]
      exact bound_le_hi (hb0 _)
    · simp only [if_true]
      have hA : r (bound 0 (r ((inA : Rat) / 255)) 1) = bound 0 (r ((inA : Rat) / 255)) 1 :=
        hfix _ (hrr _)
      have hle : ∀ u : Rat, r (bound 0 u 1 * bound 0 (r ((inA : Rat) / 255)) 1)
          ≤ bound 0 (r ((inA : Rat) / 255)) 1 := by
        intro u
        calc r (bound 0 u 1 * bound 0 (r ((inA : Rat) / 255)) 1)
            ≤ r (bound 0 (r ((inA : Rat) / 255)) 1) :=
              hr _ _ (mul_le_of_le_one_left (hb0 _) (hb1 u))
          _ = bound 0 (r ((inA : Rat) / 255)) 1 := hA
      exact hle _

/-! ### identities -/

/-- An identity row of a colour matrix (1 on its own channel, 0 elsewhere, 0 offset) returns the
    channel unchanged — exactly, for all 256 values, under IEEE rounding. -/
theorem C16_identity_row (c : Nat) (hc : c < 256) : idRow c = c :=
  Nat.eq_of_beq_eq_true (all_range idRow_all c hc)

/-- Identity chain in sRGB (demultiply → identity per-channel primitive → multiply): exact no-op on
    valid pixels.  This is the content of "identity colour matrix / identity transfer functions
    reproduce the unfiltered image" at pixel level. -/
theorem C16_identity_chain (c a : Nat) (ha : a < 256) (hca : c ≤ a) :
    mulAlpha (idRow (demulAlpha c a)) a = c := by
  rw [C16_identity_row _ (Nat.lt_succ_of_le (demulAlpha_byte c a))]
  exact C16_demul_mul_id c a ha hca

/-! ### non-vacuity -/

example : arithPixel F32.rnd 0 1 0 0 ⟨10, 20, 30, 200⟩ ⟨0, 0, 0, 0⟩ = some ⟨10, 20, 30, 200⟩ := by
  decide +kernel
example : (applyColorMatrix F32.rnd [1,0,0,0,0, 0,1,0,0,0, 0,0,1,0,0, 0,0,0,1,0] ⟨10, 20, 30, 200⟩)
    = ⟨10, 20, 30, 200⟩ := by decide +kernel

/-- **lighting results are valid premultiplied pixels**: the alpha the lighting kernels store is at least
    every colour channel (specular: the largest channel, and no larger; diffuse: 255), for all channel
    values — in particular whatever the order of the channels of `lighting-color` -/
theorem C16_lighting_valid (specular : Bool) (r g b : Nat) (hr : r ≤ 255) (hg : g ≤ 255) (hb : b ≤ 255) :
    (lightingPixel specular r g b).valid ∧
    (specular = true → ((lightingPixel specular r g b).a = r ∨ (lightingPixel specular r g b).a = g ∨
      (lightingPixel specular r g b).a = b)) := by
  unfold lightingPixel Px.valid specularAlpha diffuseAlpha
  cases specular <;> simp <;> omega

/-- a three-way maximum that forgets one channel in one branch (the shape of a hand-written `if`) is not
    valid: blue > green > red leaves blue above alpha -/
example : ¬ ({ r := 16, g := 76, b := 135, a := (if (16 : Nat) ≥ 76 then max 16 135 else 76) } : Px).valid := by
  unfold Px.valid; decide

/-! ### colour-space bookkeeping: a painted colour is shown as it was asked for

`feFlood` and the shadow of `feDropShadow` paint a colour given in sRGB.  The data of an intermediate image is
right when its tag tells the truth (`Tagged.consistent`); conversions between primitives keep that, and the
final conversion to sRGB then undoes exactly what was done.  `Generated.paintedColourSites` is read off
`filter/mod.rs` by the translator (tag of the result, when the colour is converted). -/

open Resvg.Render in
/-- `into_color_space` keeps the tag truthful -/
theorem C16_into_space_consistent (t : Tagged) (cs : CSpace) (h : t.consistent) : (intoSpace t cs).consistent := by
  unfold Tagged.consistent at *
  unfold intoSpace
  cases cs <;> cases ht : t.tag <;> simp_all

open Resvg.Render in
/-- a truthful image ends up as sRGB data: no conversion is left over -/
theorem C16_finish_exact (t : Tagged) (h : t.consistent) : (finish t).conversions = 0 ∧ (finish t).tag = .srgb := by
  unfold Tagged.consistent at h
  unfold finish intoSpace
  cases ht : t.tag <;> simp_all

open Resvg.Render in
/-- … also after any chain of primitives that work in other colour spaces -/
theorem C16_chain_exact (t : Tagged) (spaces : List CSpace) (h : t.consistent) :
    (finish (spaces.foldl intoSpace t)).conversions = 0 := by
  have : (spaces.foldl intoSpace t).consistent := by
    induction spaces generalizing t with
    | nil => simpa
    | cons c cs ih => exact ih _ (C16_into_space_consistent t c h)
  exact (C16_finish_exact _ this).1

open Resvg.Render in
/-- **Current sources**: every primitive that paints a colour tags its result truthfully, in either working
    space — so the colour shown is the colour asked for (`flood-color` of feFlood and feDropShadow). -/
theorem C16_painted_colours_exact (cs : CSpace) (spaces : List CSpace) :
    ∀ e ∈ Generated.paintedColourSites,
      (paintedColour e.2.1 e.2.2 cs).consistent ∧
      (finish (spaces.foldl intoSpace (paintedColour e.2.1 e.2.2 cs))).conversions = 0 := by
  intro e he
  have hc : (paintedColour e.2.1 e.2.2 cs).consistent := by
    simp [Generated.paintedColourSites] at he
    rcases he with rfl | rfl <;> cases cs <;> decide
  exact ⟨hc, C16_chain_exact _ _ hc⟩

open Resvg.Render in
/-- the shadow before fix 2b20ed9 (converted always, tagged with the working space) was shown one conversion
    off in sRGB filters — and right in linearRGB ones, which is why the pinned images never showed it -/
theorem C16_old_drop_shadow_srgb_converted :
    (finish (paintedColour "cs" "always" .srgb)).conversions = 1 ∧
    (finish (paintedColour "cs" "always" .linear)).conversions = 0 := by
  constructor <;> decide

open Resvg.Render in
/-- **Current sources**: the primitives that copy pixels unchanged hand the tag of their input on, so the
    bookkeeping stays truthful through them -/
theorem C16_pass_through_consistent (input : Tagged) (h : input.consistent) :
    ∀ e ∈ Generated.passThroughSites, (passThrough e.2 input).consistent := by
  intro e he
  simp [Generated.passThroughSites] at he
  rcases he with rfl | rfl <;> simpa [passThrough, Tagged.consistent] using h

open Resvg.Render in
/-- feTile before fix 2c01963 tagged its result sRGB whatever it copied: after a linearRGB primitive the
    linear data was never converted back -/
theorem C16_old_tile_after_linear :
    ¬ (passThrough "srgb" ⟨.linear, 1⟩).consistent ∧ (finish (passThrough "srgb" ⟨.linear, 1⟩)).conversions = 1 := by
  constructor <;> decide

end Resvg.Props.C16
