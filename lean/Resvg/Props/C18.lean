/-
  C18 — objectBoundingBox definitions resolve to the equivalent user-space definitions.
  Model: Resvg/Convert/Bbox.lean.
-/
import Mathlib.Tactic.Ring
import Mathlib.Tactic.Linarith
import Resvg.Convert.Bbox
import Resvg.Lemmas.Transform
import Resvg.Generated.FiniteGuards

namespace Resvg.Props.C18
open Resvg Resvg.Geom Resvg.Convert Resvg.Lemmas

/-- the map from bounding-box fractions to user space: (0,0) ↦ the box origin, (1,1) ↦ its far corner -/
def bboxMap (b : LTRB Rat) (p : Rat × Rat) : Rat × Rat := (b.l + p.1 * (b.r - b.l), b.t + p.2 * (b.b - b.t))

theorem act_fromBbox (b : LTRB Rat) (p : Rat × Rat) : act (fromBbox b) p = bboxMap b p := by
  unfold act fromBbox bboxMap LTRB.width LTRB.height LTRB.x LTRB.y Transform.zero
  simp only [Flt.rat_sub, Flt.rat_ofNat, Nat.cast_zero]
  ext <;> simp <;> ring

/-- **C18 (gradients)**: the rewritten gradient transform maps a point of the gradient's own
    coordinate system exactly as the objectBoundingBox rules say — first the gradientTransform,
    then the bounding-box map — for every box and every gradientTransform. -/
theorem C18_gradient_equivalent (t : Transform Rat) (b : LTRB Rat) (p : Rat × Rat) :
    act (gradientToUser t b) p = bboxMap b (act t p) := by
  unfold gradientToUser Transform.postConcat
  rw [concat_eq, act_mulT, act_fromBbox]

/-- **C18 (clip paths, mask content)**: content given in bounding-box fractions is first mapped
    into the box, then transformed by the definition's own transform. -/
theorem C18_clip_equivalent (t : Transform Rat) (b : LTRB Rat) (p : Rat × Rat) :
    act (clipToUser t b) p = act t (bboxMap b p) := by
  unfold clipToUser Transform.preConcat
  rw [concat_eq, act_mulT, act_fromBbox]

/-- **C18 (regions of patterns, masks, filters)**: the rewritten rectangle is the image of the
    fractional rectangle under the bounding-box map (both corners). -/
theorem C18_region_equivalent (x y w h : Rat) (b : LTRB Rat) :
    let r := rectToUser x y w h b
    (r.1, r.2.1) = bboxMap b (x, y) ∧ (r.1 + r.2.2.1, r.2.1 + r.2.2.2) = bboxMap b (x + w, y + h) := by
  simp only [rectToUser, bboxMap, LTRB.width, LTRB.height, LTRB.x, LTRB.y, Flt.rat_add, Flt.rat_mul, Flt.rat_sub]
  constructor <;> ext <;> simp <;> ring

/-- pattern content in bounding-box units is scaled by the box size and **not** shifted (the tile
    origin already is at the mapped rectangle) -/
theorem C18_pattern_content (b : LTRB Rat) (p : Rat × Rat) :
    act (patternContentToUser b) p = (p.1 * (b.r - b.l), p.2 * (b.b - b.t)) := by
  unfold act patternContentToUser Transform.fromScale Transform.zero LTRB.width LTRB.height
  simp only [Flt.rat_sub, Flt.rat_ofNat, Nat.cast_zero]
  ext <;> simp

/-- **C18 (shared definitions need separate resolutions)**: two elements whose boxes differ get
    different rewritten gradients (so one shared copy cannot serve both), whenever the
    gradientTransform is invertible. -/
theorem C18_different_boxes_different_resolution (b1 b2 : LTRB Rat)
    (h : fromBbox b1 = fromBbox b2) : b1.l = b2.l ∧ b1.t = b2.t ∧ b1.r - b1.l = b2.r - b2.l ∧ b1.b - b1.t = b2.b - b2.t := by
  have h1 := congrArg Transform.tx h
  have h2 := congrArg Transform.ty h
  have h3 := congrArg Transform.sx h
  have h4 := congrArg Transform.sy h
  simp only [fromBbox, LTRB.x, LTRB.y, LTRB.width, LTRB.height, Flt.rat_sub] at h1 h2 h3 h4
  exact ⟨h1, h2, h3, h4⟩

example : act (gradientToUser ⟨1, 0, 0, 1, 0, 0⟩ ⟨10, 20, 110, 70⟩) (1 / 2, 1 / 2) = (60, 45) := by decide +kernel

/-! ### a rewritten definition stays usable: determinants -/

/-- determinant of the linear part -/
def det (t : Transform Rat) : Rat := t.sx * t.sy - t.kx * t.ky

theorem det_mulT (a b : Transform Rat) : det (mulT a b) = det a * det b := by
  unfold det mulT; simp only; ring

/-- **a non-empty box keeps a definition invertible**: the determinant of the rewritten gradient / clip
    transform is the definition's own determinant times the box's area; so for a box with non-zero width
    and height (the only boxes the converter accepts: `to_non_zero_rect`) an invertible
    `gradientTransform` / clip-path `transform` stays invertible, and a degenerate one stays degenerate -/
theorem C18_rewriting_scales_det (t : Transform Rat) (b : LTRB Rat) :
    det (gradientToUser t b) = det t * (b.width * b.height) ∧
    det (clipToUser t b) = det t * (b.width * b.height) := by
  have hf : det (fromBbox b) = b.width * b.height := by
    unfold det fromBbox Transform.zero; simp [Flt.ofNat]
  unfold gradientToUser clipToUser Transform.postConcat Transform.preConcat
  rw [concat_eq, concat_eq, det_mulT, det_mulT, hf]
  constructor <;> ring

theorem C18_nonzero_box_keeps_invertible (t : Transform Rat) (b : LTRB Rat)
    (hw : b.width ≠ 0) (hh : b.height ≠ 0) :
    (det (gradientToUser t b) ≠ 0 ↔ det t ≠ 0) ∧ (det (clipToUser t b) ≠ 0 ↔ det t ≠ 0) := by
  obtain ⟨h1, h2⟩ := C18_rewriting_scales_det t b
  rw [h1, h2]
  have : b.width * b.height ≠ 0 := mul_ne_zero hw hh
  constructor <;> exact ⟨fun h hc => h (by rw [hc]; ring), fun h => mul_ne_zero h this⟩

/-- and an empty box destroys it — which is why the converter refuses such boxes and falls back -/
theorem C18_zero_box_degenerate (t : Transform Rat) (b : LTRB Rat) (hw : b.width = 0) :
    det (gradientToUser t b) = 0 := by
  rw [(C18_rewriting_scales_det t b).1, hw]; ring

/-! ### which definitions may be shared between elements

A clip path links another one through its own `clip-path` attribute (a mask through `mask`); the whole chain
is converted for the element that uses the first one.  A converted chain may be kept and handed to the next
element only if it does not depend on the element: every member in user-space units. -/

/-- a chain of clip paths as the converter sees it: per member, "is in bounding-box units" and its transform -/
abbrev ClipChain := List (Bool × Transform Rat)

/-- the transforms of the converted chain for an element with box `b` -/
def resolveChain (chain : ClipChain) (b : LTRB Rat) : List (Transform Rat) :=
  chain.map (fun e => if e.1 then clipToUser e.2 b else e.2)

/-- the rule of the current sources (`units == UserSpaceOnUse && !links_bbox_units(node)`): no member in
    bounding-box units -/
def shareable (chain : ClipChain) : Bool := chain.all (fun e => !e.1)

/-- the former rule looked at the first member only -/
def shareableOld (chain : ClipChain) : Bool := match chain with
  | [] => true
  | e :: _ => !e.1

/-- **a shared conversion is the conversion every element would get**: when the chain is shareable its
    resolution does not depend on the element's box -/
theorem C18_shareable_chain_is_box_independent (chain : ClipChain) (h : shareable chain = true) (b1 b2 : LTRB Rat) :
    resolveChain chain b1 = resolveChain chain b2 ∧ ∀ g ∈ Generated.sharingRuleChainAware, g.2 = true := by
  refine ⟨?_, by decide⟩
  unfold resolveChain
  apply List.map_congr_left
  intro e he
  have := List.all_eq_true.mp h e he
  simp at this
  simp [this]

/-- the former rule shared a user-space clip path that links a bounding-box one: two elements with
    different boxes need different conversions of the linked member (the second element got the first
    one's and, in the recorded witness, disappeared) -/
theorem C18_old_sharing_rule_wrong :
    let chain : ClipChain := [(false, ⟨1, 0, 0, 1, 0, 0⟩), (true, ⟨1, 0, 0, 1, 0, 0⟩)]
    shareableOld chain = true ∧ shareable chain = false ∧
    resolveChain chain ⟨0, 0, 10, 10⟩ ≠ resolveChain chain ⟨50, 50, 80, 90⟩ := by
  refine ⟨rfl, rfl, ?_⟩
  intro h
  have h2 := congrArg (fun l => (l.getD 1 ⟨0, 0, 0, 0, 0, 0⟩).tx) h
  revert h2
  decide +kernel

end Resvg.Props.C18
