/-
  C18 — objectBoundingBox definitions resolve to the equivalent user-space definitions.
  Model: Resvg/Convert/Bbox.lean.
-/
import Mathlib.Tactic.Ring
import Mathlib.Tactic.Linarith
import Resvg.Convert.Bbox
import Resvg.Lemmas.Transform

namespace Resvg.Props.C18
open Resvg Resvg.Geom Resvg.Convert Resvg.Lemmas

/-- the map from bounding-box fractions to user space: (0,0) ↦ the box origin, (1,1) ↦ its far corner -/
def bboxMap (b : LTRB Rat) (p : Rat × Rat) : Rat × Rat := (b.l + p.1 * (b.r - b.l), b.t + p.2 * (b.b - b.t))

theorem act_fromBbox (b : LTRB Rat) (p : Rat × Rat) : act (fromBbox b) p = bboxMap b p := by
  unfold act fromBbox bboxMap LTRB.width LTRB.height LTRB.x LTRB.y Transform.zero
  simp only [Flt.rat_sub, Flt.rat_ofNat, Nat.cast_zero]
  ext <;> simp <;> ring

/-- **C18 (gradients)**: the rewritten gradient transform maps a point of the gradient's own
    coordinate system exactly as the objectBoundingBox rules say — first the gradientTransform,
    then the bounding-box map — for every box and every gradientTransform. -/
theorem C18_gradient_equivalent (t : Transform Rat) (b : LTRB Rat) (p : Rat × Rat) :
    act (gradientToUser t b) p = bboxMap b (act t p) := by
  unfold gradientToUser Transform.postConcat
  rw [concat_eq, act_mulT, act_fromBbox]

/-- **C18 (clip paths, mask content)**: content given in bounding-box fractions is first mapped
    into the box, then transformed by the definition's own transform. -/
theorem C18_clip_equivalent (t : Transform Rat) (b : LTRB Rat) (p : Rat × Rat) :
    act (clipToUser t b) p = act t (bboxMap b p) := by
  unfold clipToUser Transform.preConcat
  rw [concat_eq, act_mulT, act_fromBbox]

/-- **C18 (regions of patterns, masks, filters)**: the rewritten rectangle is the image of the
    fractional rectangle under the bounding-box map (both corners). -/
theorem C18_region_equivalent (x y w h : Rat) (b : LTRB Rat) :
    let r := rectToUser x y w h b
    (r.1, r.2.1) = bboxMap b (x, y) ∧ (r.1 + r.2.2.1, r.2.1 + r.2.2.2) = bboxMap b (x + w, y + h) := by
  simp only [rectToUser, bboxMap, LTRB.width, LTRB.height, LTRB.x, LTRB.y, Flt.rat_add, Flt.rat_mul, Flt.rat_sub]
  constructor <;> ext <;> simp <;> ring

/-- pattern content in bounding-box units is scaled by the box size and **not** shifted (the tile
    origin already is at the mapped rectangle) -/
theorem C18_pattern_content (b : LTRB Rat) (p : Rat × Rat) :
    act (patternContentToUser b) p = (p.1 * (b.r - b.l), p.2 * (b.b - b.t)) := by
  unfold act patternContentToUser Transform.fromScale Transform.zero LTRB.width LTRB.height
  simp only [Flt.rat_sub, Flt.rat_ofNat, Nat.cast_zero]
  ext <;> simp

/-- **C18 (shared definitions need separate resolutions)**: two elements whose boxes differ get
    different rewritten gradients (so one shared copy cannot serve both), whenever the
    gradientTransform is invertible. -/
theorem C18_different_boxes_different_resolution (b1 b2 : LTRB Rat)
    (h : fromBbox b1 = fromBbox b2) : b1.l = b2.l ∧ b1.t = b2.t ∧ b1.r - b1.l = b2.r - b2.l ∧ b1.b - b1.t = b2.b - b2.t := by
  have h1 := congrArg Transform.tx h
  have h2 := congrArg Transform.ty h
  have h3 := congrArg Transform.sx h
  have h4 := congrArg Transform.sy h
  simp only [fromBbox, LTRB.x, LTRB.y, LTRB.width, LTRB.height, Flt.rat_sub] at h1 h2 h3 h4
  exact ⟨h1, h2, h3, h4⟩

example : act (gradientToUser ⟨1, 0, 0, 1, 0, 0⟩ ⟨10, 20, 110, 70⟩) (1 / 2, 1 / 2) = (60, 45) := by decide +kernel

end Resvg.Props.C18
