/-
  C04 — Every value in a parsed tree is resolved and valid (the normalisation cores).
  Model: Resvg/Convert/Stops.lean (`convert_stops` offsets, `conv_dasharray`, miter clamp).
  The tree-wide claims (path segments, regions, units, text spans) are checked by the tree walker of
  the implementation-side search.
-/
import Mathlib.Tactic.Linarith
import Mathlib.Tactic.SplitIfs
import Mathlib.Tactic.NormNum
import Batteries.Data.List.Lemmas
import Resvg.Convert.Stops
import Resvg.Generated.FiniteGuards

namespace Resvg.Props.C04
open Resvg Resvg.Convert

theorem clamp01_range (x : Rat) : 0 ≤ clamp01 x ∧ clamp01 x ≤ 1 := by
  unfold clamp01
  simp only [Flt.rat_lt, Flt.rat_ofNat, decide_eq_true_eq]
  norm_num
  split_ifs <;> constructor <;> linarith

theorem clamp01_id (x : Rat) (h : 0 ≤ x ∧ x ≤ 1) : clamp01 x = x := by
  unfold clamp01
  simp only [Flt.rat_lt, Flt.rat_ofNat, decide_eq_true_eq]
  norm_num
  have h1 : ¬ (1 < x) := not_lt.mpr h.2
  have h2 : ¬ (x < 0) := not_lt.mpr h.1
  simp [h1, h2]

theorem clamp01_mono {x y : Rat} (h : x ≤ y) : clamp01 x ≤ clamp01 y := by
  unfold clamp01
  simp only [Flt.rat_lt, Flt.rat_ofNat, decide_eq_true_eq]
  norm_num
  split_ifs <;> linarith

/-- **Offsets come out non-decreasing** (third pass, any input in [0,1], any length):
    `IsChain (≤) (b :: out)` says `b ≤ out[0] ≤ out[1] ≤ …`. -/
theorem shiftRec_sorted (rest : List Rat) (p2 : Option Rat) (p1 : Rat)
    (h1 : 0 ≤ p1 ∧ p1 ≤ 1) (h2 : ∀ q, p2 = some q → 0 ≤ q ∧ q ≤ p1)
    (hr : ∀ x ∈ rest, 0 ≤ x ∧ x ≤ 1) :
    List.IsChain (· ≤ ·) (p2.getD 0 :: shiftRec p2 p1 rest) := by
  induction rest generalizing p2 p1 with
  | nil =>
    simp only [shiftRec]
    refine List.IsChain.cons_cons ?_ (List.IsChain.singleton _)
    cases p2 with
    | none => exact h1.1
    | some q => exact (h2 q rfl).2
  | cons n rest ih =>
    have hr' : ∀ x ∈ rest, 0 ≤ x ∧ x ≤ 1 := fun x hx => hr x (List.mem_cons_of_mem _ hx)
    simp only [shiftRec]
    split_ifs with hc
    · -- lowered :: …
      cases p2 with
      | none =>
        simp only [Option.getD_none]
        refine List.IsChain.cons_cons (clamp01_range _).1 ?_
        have := ih (some (clamp01 (Flt.sub p1 Flt.eps))) (clamp01 p1) (clamp01_range _) (by
          intro q hq; injection hq with hq; subst hq
          refine ⟨(clamp01_range _).1, ?_⟩
          apply clamp01_mono
          simp only [Flt.rat_sub, Flt.rat_eps]; norm_num) hr'
        simpa using this
      | some q =>
        obtain ⟨hq0, hq1⟩ := h2 q rfl
        simp only [Option.getD_some]
        have hmax : q ≤ Flt.max (Flt.sub p1 Flt.eps) q := by
          simp only [Flt.rat_max, Flt.rat_sub, Flt.rat_eps]; split_ifs <;> linarith
        have hmax2 : Flt.max (Flt.sub p1 Flt.eps) q ≤ p1 := by
          simp only [Flt.rat_max, Flt.rat_sub, Flt.rat_eps]; split_ifs <;> [exact hq1; norm_num]
        refine List.IsChain.cons_cons ?_ ?_
        · calc q = clamp01 q := (clamp01_id q ⟨hq0, le_trans hq1 h1.2⟩).symm
            _ ≤ clamp01 _ := clamp01_mono hmax
        · have := ih (some (clamp01 (Flt.max (Flt.sub p1 Flt.eps) q))) (clamp01 p1) (clamp01_range _) (by
            intro r hr; injection hr with hr; subst hr
            exact ⟨(clamp01_range _).1, clamp01_mono hmax2⟩) hr'
          simpa using this
    · -- p1 :: …  (n is strictly larger and not approximately equal)
      simp only [Bool.or_eq_true, Flt.rat_lt, Flt.rat_approxEq4, decide_eq_true_eq, not_or] at hc
      have hn : p1 ≤ n := not_lt.mp hc.1
      refine List.IsChain.cons_cons ?_ ?_
      · cases p2 with
        | none => exact h1.1
        | some q => exact (h2 q rfl).2
      · have := ih (some p1) n (hr n (List.mem_cons_self)) (by
          intro r hr; injection hr with hr; subst hr; exact ⟨h1.1, hn⟩) hr'
        simpa using this

/-- every offset produced by the third pass is in [0, 1] -/
theorem shiftRec_range (rest : List Rat) (p2 : Option Rat) (p1 : Rat)
    (h1 : 0 ≤ p1 ∧ p1 ≤ 1) (hr : ∀ x ∈ rest, 0 ≤ x ∧ x ≤ 1) :
    ∀ x ∈ shiftRec p2 p1 rest, 0 ≤ x ∧ x ≤ 1 := by
  induction rest generalizing p2 p1 with
  | nil => intro x hx; simp only [shiftRec, List.mem_singleton] at hx; subst hx; exact h1
  | cons n rest ih =>
    have hr' : ∀ x ∈ rest, 0 ≤ x ∧ x ≤ 1 := fun x hx => hr x (List.mem_cons_of_mem _ hx)
    intro x hx
    simp only [shiftRec] at hx
    split_ifs at hx with hc
    · rcases List.mem_cons.mp hx with h | h
      · subst h; exact clamp01_range _
      · exact ih _ _ (clamp01_range _) hr' x h
    · rcases List.mem_cons.mp hx with h | h
      · subst h; exact h1
      · exact ih _ _ (hr n List.mem_cons_self) hr' x h

/-- `Sorted` as adjacent-pairs chain -/
def Sorted (l : List Rat) : Prop := List.IsChain (· ≤ ·) l

theorem shiftEqual_sorted (l : List Rat) (h : ∀ x ∈ l, 0 ≤ x ∧ x ≤ 1) : Sorted (shiftEqual l) := by
  cases l with
  | nil => exact List.IsChain.nil
  | cons a rest =>
    have := shiftRec_sorted rest none a (h a List.mem_cons_self) (by intro q hq; cases hq)
      (fun x hx => h x (List.mem_cons_of_mem _ hx))
    simp only [Option.getD_none] at this
    exact List.IsChain.of_cons this

theorem shiftEqual_range (l : List Rat) (h : ∀ x ∈ l, 0 ≤ x ∧ x ≤ 1) :
    ∀ x ∈ shiftEqual l, 0 ≤ x ∧ x ≤ 1 := by
  cases l with
  | nil => intro x hx; cases hx
  | cons a rest =>
    exact shiftRec_range rest none a (h a List.mem_cons_self)
      (fun x hx => h x (List.mem_cons_of_mem _ hx))


/-! ### the two earlier passes keep every offset in [0, 1] -/

def InUnit (l : List Rat) : Prop := ∀ x ∈ l, 0 ≤ x ∧ x ≤ 1

theorem inUnit_eraseIdx {l : List Rat} (h : InUnit l) (i : Nat) : InUnit (l.eraseIdx i) :=
  fun x hx => h x (List.mem_of_mem_eraseIdx hx)

theorem inUnit_set {l : List Rat} (h : InUnit l) (i : Nat) (v : Rat) (hv : 0 ≤ v ∧ v ≤ 1) :
    InUnit (l.set i v) := by
  intro x hx
  rcases List.mem_or_eq_of_mem_set hx with h' | h'
  · exact h x h'
  · subst h'; exact hv

theorem dedup_inUnit (fuel i : Nat) (l : List Rat) (h : InUnit l) : InUnit (dedupTriples fuel i l) := by
  induction fuel generalizing i l with
  | zero => simpa [dedupTriples] using h
  | succ f ih =>
    unfold dedupTriples
    split_ifs
    · exact h
    · split
      · split_ifs
        · exact ih _ _ (inUnit_eraseIdx h _)
        · exact ih _ _ h
      · exact h
    · exact h

theorem zeroStep_inUnit (l : List Rat) (i : Nat) (h : InUnit l) : InUnit (zeroStep l i) := by
  unfold zeroStep
  split
  · split_ifs
    · exact inUnit_set h _ _ (clamp01_range _)
    · exact h
  · exact h

theorem fixZeros_inUnit (l : List Rat) (h : InUnit l) : InUnit (fixZeros l) := by
  unfold fixZeros
  generalize List.range (l.length - 1) = idx
  induction idx generalizing l with
  | nil => exact h
  | cons i t ih => exact ih _ (zeroStep_inUnit l i h)

/-- **C04 (gradient stops), all inputs**: whatever offsets the document gives — any number of
    stops, any values, in any order — the offsets of the converted gradient are all in [0, 1] and
    non-decreasing. -/
theorem C04_stop_offsets_valid (raw : List Rat) :
    InUnit (normalizeOffsets raw) ∧ Sorted (normalizeOffsets raw) := by
  have h0 : InUnit (raw.map clamp01) := by
    intro x hx
    obtain ⟨y, _, rfl⟩ := List.mem_map.mp hx
    exact clamp01_range y
  have h1 := fixZeros_inUnit _ (dedup_inUnit ((raw.map clamp01).length + 1) 0 _ h0)
  exact ⟨shiftEqual_range _ h1, shiftEqual_sorted _ h1⟩

/-- the statement is not vacuous and the pass really reorders: descending input comes out sorted -/
example : normalizeOffsets [(1:Rat)/10, 1/10 + 1/16777216, 1/20]
    = [1/10, 1/10, 1/10 + 1/16777216] := by decide +kernel

/-! ### counter-theorem: the loop as it was before fix 023f15b -/

def shiftRecOld (p1 : Rat) : List Rat → List Rat
  | [] => [p1]
  | n :: rest =>
    if Flt.lt n p1 || Flt.approxEq4 p1 n then
      clamp01 (Flt.sub p1 Flt.eps) :: shiftRecOld (clamp01 p1) rest
    else p1 :: shiftRecOld n rest

/-- without the `max(stops[i-2])` the output can descend (replayed on the implementation:
    findings/C04/descending-stops.svg) -/
theorem C04_old_loop_descends :
    shiftRecOld (1/10) [1/10 + 1/16777216, 1/20] = [1/10, 1/10 - 1/16777216, 1/10 + 1/16777216] := by
  decide +kernel

/-! ### stroke-dasharray and miter limit -/

/-- **C04 (dash arrays)**: a dash list, when present, has an even number of entries, none of
    them negative and not all zero.  `isNeg` is the sign test of the code (`is_sign_negative`); the
    theorem needs from it only that non-negative-signed values are `≥ 0`. -/
theorem C04_dasharray_valid (list : List Rat) (isNeg : Rat → Bool)
    (hneg : ∀ x, isNeg x = false → 0 ≤ x) (out : List Rat)
    (h : convDashArray list isNeg = some out) :
    out.length % 2 = 0 ∧ (∀ x ∈ out, 0 ≤ x) ∧ out.foldl (· + ·) 0 ≠ 0 := by
  unfold convDashArray at h
  have foldEq : ∀ (l : List Rat) (a : Rat), l.foldl Flt.add a = l.foldl (· + ·) a := by
    intro l; induction l with
    | nil => intro a; rfl
    | cons x t ih => intro a; simp only [List.foldl_cons, Flt.rat_add]; exact ih _
  have foldNN : ∀ (l : List Rat) (a : Rat), (∀ x ∈ l, 0 ≤ x) → a ≤ l.foldl (· + ·) a := by
    intro l; induction l with
    | nil => intro a _; exact le_refl _
    | cons x t ih =>
      intro a hl
      simp only [List.foldl_cons]
      have := ih (a + x) (fun y hy => hl y (List.mem_cons_of_mem _ hy))
      have hx := hl x List.mem_cons_self
      linarith
  have hnn' : ¬ list.any isNeg = true → ∀ x ∈ list, 0 ≤ x := by
    intro h1 x hx
    apply hneg
    by_contra hc
    exact h1 (List.any_eq_true.mpr ⟨x, hx, by simpa using hc⟩)
  split_ifs at h with h1 h2 h3
  all_goals injection h with h; subst h
  all_goals simp only [Flt.rat_approxEq4, Flt.rat_ofNat, decide_eq_true_eq, Nat.cast_zero, foldEq] at h2
  all_goals have hnn := hnn' h1
  · refine ⟨by simp only [List.length_append]; omega, ?_, ?_⟩
    · intro x hx; rcases List.mem_append.mp hx with h | h <;> exact hnn x h
    · rw [List.foldl_append]
      have hs : 0 ≤ list.foldl (· + ·) 0 := foldNN list 0 hnn
      have hpos : 0 < list.foldl (· + ·) 0 := lt_of_le_of_ne hs (Ne.symm h2)
      have := foldNN list (list.foldl (· + ·) 0) hnn
      intro hz; linarith
  · refine ⟨by simpa using h3, hnn, h2⟩

theorem C04_miter_ge_one (m : Rat) : 1 ≤ clampMiter m := by
  unfold clampMiter
  simp only [Flt.rat_lt, Flt.rat_ofNat, decide_eq_true_eq]
  norm_num
  split_ifs with h
  · exact le_refl _
  · exact not_lt.mp h


/-! ### at least two stops survive -/

theorem shiftRec_length (rest : List Rat) (p2 : Option Rat) (p1 : Rat) :
    (shiftRec p2 p1 rest).length = rest.length + 1 := by
  induction rest generalizing p2 p1 with
  | nil => simp [shiftRec]
  | cons n rest ih =>
    simp only [shiftRec]
    split_ifs <;> simp [ih]

theorem shiftEqual_length (l : List Rat) : (shiftEqual l).length = l.length := by
  cases l with
  | nil => rfl
  | cons a rest => simp [shiftEqual, shiftRec_length]

theorem zeroStep_length (l : List Rat) (i : Nat) : (zeroStep l i).length = l.length := by
  unfold zeroStep
  split
  · split_ifs <;> simp
  · rfl

theorem fixZeros_length (l : List Rat) : (fixZeros l).length = l.length := by
  unfold fixZeros
  generalize List.range (l.length - 1) = idx
  induction idx generalizing l with
  | nil => rfl
  | cons i t ih => simp only [List.foldl_cons]; rw [ih, zeroStep_length]

theorem dedup_length_ge_two (fuel i : Nat) (l : List Rat) (h : 2 ≤ l.length) :
    2 ≤ (dedupTriples fuel i l).length := by
  induction fuel generalizing i l with
  | zero => simpa [dedupTriples] using h
  | succ f ih =>
    unfold dedupTriples
    split_ifs with h3 hi
    · exact h
    · split
      · split_ifs
        · apply ih
          rw [List.length_eraseIdx]
          split_ifs <;> omega
        · exact ih _ _ h
      · exact h
    · exact h

/-- **C04 (at least two stops)**: a gradient given two or more stops keeps at least two through
    all three normalisation passes (only the middle one of three equal offsets is ever removed). -/
theorem C04_at_least_two_stops (raw : List Rat) (h : 2 ≤ raw.length) : 2 ≤ (normalizeOffsets raw).length := by
  unfold normalizeOffsets
  simp only [shiftEqual_length, fixZeros_length]
  apply dedup_length_ge_two
  simpa using h

/-! ### products of two finite numbers are stored only when finite

A view-box scale is a quotient, a bounding-box resolution a product of two finite numbers; neither
need be finite in f32.  Every site that stores such a product tests it first (`Generated.finiteGuards`,
read off the current sources); `storeChecked` is that shape, for any notion `fin` of "finite". -/

/-- compute, test, store — or drop the element / paint -/
def storeChecked {T : Type} (fin : T → Bool) (product : T) : Option T :=
  if fin product then some product else none

/-- **nothing that is not finite is ever stored** by a guarded site, and every site is guarded -/
theorem C04_stored_products_finite {T : Type} (fin : T → Bool) (product stored : T)
    (h : storeChecked fin product = some stored) :
    fin stored = true ∧ stored = product ∧ ∀ g ∈ Generated.finiteGuards, g.2 = true := by
  unfold storeChecked at h
  split at h
  · injection h with h; subst h; exact ⟨by assumption, rfl, by decide⟩
  · cases h

/-- a product that is not finite is dropped -/
theorem C04_non_finite_product_dropped {T : Type} (fin : T → Bool) (product : T) (h : fin product = false) :
    storeChecked fin product = none := by
  unfold storeChecked; simp [h]

end Resvg.Props.C04
