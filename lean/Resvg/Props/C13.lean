/-
  C13 — Rendering commutes with whole-pixel translation of the canvas transform.
  What is proved here is the reason the property holds for isolated groups (layers, filters,
  lights): the layer rectangle shifts by exactly the translation while the layer-local transform —
  from which everything inside the layer, including every filter primitive, is computed — does not
  change.  Models: Render/Layer.lean, Render/Light.lean, Geom/Transform.lean.
-/
import Mathlib.Tactic.Linarith
import Mathlib.Tactic.Ring
import Mathlib.Tactic.SplitIfs
import Resvg.Lemmas.Basic
import Resvg.Lemmas.Transform
import Resvg.Render.Layer
import Resvg.Render.Light
import Resvg.Props.C02

namespace Resvg.Props.C13
open Resvg Resvg.Render Resvg.Render.IntRect Resvg.Geom Resvg.Lemmas

/-- ⌊x + k⌋ = ⌊x⌋ + k and ⌈w⌉ is untouched by a translation: the integer part of a layer moves by
    exactly the whole-pixel translation. -/
theorem C13_floor_shift (x : Rat) (k : Int) : (x + k).floor = x.floor + k := Rat.floor_add_intCast
theorem C13_ceil_shift (x : Rat) (k : Int) : (x + k).ceil = x.ceil + k := Rat.ceil_add_intCast

def shiftRect (r : IntRect) (k m : Int) : IntRect := ⟨r.x + k, r.y + m, r.w, r.h⟩

/-- the layer rectangle before the clamp to the maximum box -/
def rawLayer (x y w h : Rat) (noFilters : Bool) : Option IntRect :=
  if noFilters then
    IntRect.fromXywh (satSubI32 (satI32 x.floor) 2) (satSubI32 (satI32 y.floor) 2)
      (satAddU32 (satU32 w.ceil) 4) (satAddU32 (satU32 h.ceil) 4)
  else toIntRect x y w h

theorem layerRect_eq_raw (x y w h : Rat) (nf : Bool) (mb : IntRect) :
    layerRect x y w h nf mb = .ok ((rawLayer x y w h nf).bind (fun r => fitToRect r mb)) := by
  unfold layerRect rawLayer
  cases nf <;> simp only [Bool.false_eq_true, if_false, if_true] <;> split <;> simp_all

theorem fromXywh_shift (x y w h k m : Int) (r : IntRect)
    (hr : IntRect.fromXywh x y w h = some r)
    (hk : x + k + w ≤ i32Max) (hm : y + m + h ≤ i32Max) :
    IntRect.fromXywh (x + k) (y + m) w h = some (shiftRect r k m) := by
  obtain ⟨e, h1, h2, _, _⟩ := C02.fromXywh_some hr
  subst e
  unfold IntRect.fromXywh at hr ⊢
  unfold shiftRect
  split_ifs at hr ⊢ <;> first | omega | rfl

/-- **The raw layer shifts with the translation** (boxes inside ±2²⁹ before and after the shift). -/
theorem C13_raw_layer_shift (x y w h : Rat) (nf : Bool) (k m : Int) (r : IntRect)
    (hx : -536870912 ≤ x ∧ x ≤ 536870912) (hy : -536870912 ≤ y ∧ y ≤ 536870912)
    (hxk : -536870912 ≤ x + k ∧ x + k ≤ 536870912) (hym : -536870912 ≤ y + m ∧ y + m ≤ 536870912)
    (hw : 0 < w ∧ w ≤ 536870912) (hh : 0 < h ∧ h ≤ 536870912)
    (hr : rawLayer x y w h nf = some r) :
    rawLayer (x + k) (y + m) w h nf = some (shiftRect r k m) := by
  have fl : ∀ (z : Rat), -536870912 ≤ z ∧ z ≤ 536870912 → (-536870912 : Int) ≤ z.floor ∧ z.floor < 536870913 :=
    fun z hz => ⟨Rat.le_floor_iff.mpr (by exact_mod_cast hz.1), Rat.floor_lt_iff.mpr (by push_cast; linarith [hz.2])⟩
  have cl : ∀ (z : Rat), 0 < z ∧ z ≤ 536870912 → 0 < z.ceil ∧ z.ceil ≤ 536870912 :=
    fun z hz => ⟨Rat.lt_ceil_iff.mpr (by exact_mod_cast hz.1), Rat.ceil_le_iff.mpr (by exact_mod_cast hz.2)⟩
  obtain ⟨a1, a2⟩ := fl x hx; obtain ⟨b1, b2⟩ := fl y hy
  obtain ⟨a3, a4⟩ := fl (x + k) hxk; obtain ⟨b3, b4⟩ := fl (y + m) hym
  obtain ⟨c1, c2⟩ := cl w hw; obtain ⟨d1, d2⟩ := cl h hh
  rw [C13_floor_shift] at a3 a4 b3 b4
  have sI : ∀ n : Int, -536870912 ≤ n → n < 536870913 → satI32 n = n := by
    intro n h1 h2; unfold satI32 i32Min i32Max; split_ifs <;> omega
  have sS : ∀ n : Int, -536870912 ≤ n → n < 536870913 → satSubI32 n 2 = n - 2 := by
    intro n h1 h2; unfold satSubI32 satI32 i32Min i32Max; split_ifs <;> omega
  have sU : ∀ n : Int, 0 < n → n ≤ 536870912 → satU32 n = n := by
    intro n h1 h2; unfold satU32 u32Max; split_ifs <;> omega
  have sA : ∀ n : Int, 0 < n → n ≤ 536870912 → satAddU32 n 4 = n + 4 := by
    intro n h1 h2; unfold satAddU32 satU32 u32Max; split_ifs <;> omega
  unfold rawLayer toIntRect at hr ⊢
  rw [C13_floor_shift, C13_floor_shift]
  cases nf
  · simp only [Bool.false_eq_true, if_false] at hr ⊢
    rw [sI _ a1 a2, sI _ b1 b2, sU _ c1 c2, sU _ d1 d2] at hr
    rw [sI _ a3 a4, sI _ b3 b4, sU _ c1 c2, sU _ d1 d2]
    apply fromXywh_shift _ _ _ _ _ _ _ hr <;> (unfold i32Max; split_ifs <;> omega)
  · simp only [if_true] at hr ⊢
    rw [sI _ a1 a2, sI _ b1 b2, sU _ c1 c2, sU _ d1 d2, sS _ a1 a2, sS _ b1 b2, sA _ c1 c2, sA _ d1 d2] at hr
    rw [sI _ a3 a4, sI _ b3 b4, sU _ c1 c2, sU _ d1 d2, sS _ a3 a4, sS _ b3 b4, sA _ c1 c2, sA _ d1 d2]
    have e1 : x.floor + k - 2 = x.floor - 2 + k := by ring
    have e2 : y.floor + m - 2 = y.floor - 2 + m := by ring
    rw [e1, e2]
    apply fromXywh_shift _ _ _ _ _ _ _ hr <;> (unfold i32Max; omega)

theorem fromXywh_valid {x y w h : Int} {r : IntRect} (hr : IntRect.fromXywh x y w h = some r) :
    1 ≤ r.w ∧ 1 ≤ r.h ∧ r.x + r.w ≤ i32Max ∧ r.y + r.h ≤ i32Max ∧ r.w ≤ i32Max ∧ r.h ≤ i32Max := by
  unfold IntRect.fromXywh at hr
  split_ifs at hr with h1 h2 h3
  injection hr with hr; subst hr
  simp only
  refine ⟨?_, ?_, ?_, ?_, ?_, ?_⟩ <;> omega

theorem rawLayer_valid {x y w h : Rat} {nf : Bool} {r : IntRect} (hr : rawLayer x y w h nf = some r) :
    1 ≤ r.w ∧ 1 ≤ r.h ∧ r.x + r.w ≤ i32Max ∧ r.y + r.h ≤ i32Max ∧ r.w ≤ i32Max ∧ r.h ≤ i32Max := by
  unfold rawLayer toIntRect at hr
  split_ifs at hr <;> exact fromXywh_valid hr

/-- a rectangle inside the bounds is returned unchanged by `fit_to_rect` -/
theorem fit_of_subset (r b : IntRect) (hs : r.subset b)
    (hr : 1 ≤ r.w ∧ 1 ≤ r.h ∧ i32Min ≤ r.x ∧ i32Min ≤ r.y ∧ r.right ≤ i32Max ∧ r.bottom ≤ i32Max ∧ r.w ≤ i32Max ∧ r.h ≤ i32Max) :
    fitToRect r b = some r := by
  unfold IntRect.subset at hs
  have e1 : ¬ r.x < b.x := by omega
  have e2 : ¬ r.y < b.y := by omega
  have e3 : ¬ r.right > b.right := by omega
  have e4 : ¬ r.bottom > b.bottom := by omega
  unfold fitToRect
  simp only [e1, e2, e3, e4, if_false]
  have hr' := hr
  simp only [IntRect.right, IntRect.bottom, i32Min, i32Max] at hr' hs e1 e2 e3 e4
  rw [C02.fromLtrb_eq] <;> try (simp only [IntRect.right, IntRect.bottom, i32Min, i32Max]; omega)
  have c : r.x < r.right ∧ r.y < r.bottom := by
    simp only [IntRect.right, IntRect.bottom]; omega
  rw [if_pos c]
  cases r with | mk rx ry rw rh =>
  simp only [IntRect.right, IntRect.bottom, IntRect.mk.injEq, Option.some.injEq, true_and]
  constructor <;> omega

/-- **Layer shift (unclamped).**  When neither the original nor the translated layer touches the
    maximum box, translating the root transform by `(k, m)` whole pixels moves the layer rectangle
    by exactly `(k, m)` and leaves its size unchanged. -/
theorem C13_layer_shift (x y w h : Rat) (nf : Bool) (k m : Int) (mb r : IntRect)
    (hx : -536870912 ≤ x ∧ x ≤ 536870912) (hy : -536870912 ≤ y ∧ y ≤ 536870912)
    (hxk : -536870912 ≤ x + k ∧ x + k ≤ 536870912) (hym : -536870912 ≤ y + m ∧ y + m ≤ 536870912)
    (hw : 0 < w ∧ w ≤ 536870912) (hh : 0 < h ∧ h ≤ 536870912)
    (hr : rawLayer x y w h nf = some r) (hin : r.subset mb) (hin' : (shiftRect r k m).subset mb)
    (hv : i32Min ≤ r.x ∧ i32Min ≤ r.y ∧ i32Min ≤ r.x + k ∧ i32Min ≤ r.y + m) :
    layerRect x y w h nf mb = .ok (some r) ∧
    layerRect (x + k) (y + m) w h nf mb = .ok (some (shiftRect r k m)) := by
  have hs := C13_raw_layer_shift x y w h nf k m r hx hy hxk hym hw hh hr
  obtain ⟨v1, v2, v3, v4, v5, v6⟩ := rawLayer_valid hr
  obtain ⟨u1, u2, u3, u4, u5, u6⟩ := rawLayer_valid hs
  rw [layerRect_eq_raw, layerRect_eq_raw, hr, hs]
  simp only [Option.bind_some]
  constructor
  · rw [fit_of_subset r mb hin (by simp only [IntRect.right, IntRect.bottom]; omega)]
  · rw [fit_of_subset _ mb hin' (by simp only [IntRect.right, IntRect.bottom, shiftRect] at *; omega)]

/-- **The layer-local transform is invariant.**  With `ts' = translate(k, m) · ts` and the layer
    origin moved from `(ix, iy)` to `(ix + k, iy + m)`, the transform handed to the group's
    children, clip paths, masks and *every filter primitive* is the same:
    `translate(−ix−k, −iy−m) · translate(k, m) · ts = translate(−ix, −iy) · ts`. -/
theorem C13_local_invariant (ts : Transform Rat) (ix iy k m : Rat) :
    localTs (ix + k) (iy + m) ((Transform.fromTranslate k m).preConcat ts) = localTs ix iy ts := by
  unfold localTs Transform.preConcat
  rw [concat_eq, concat_eq, concat_eq, ← mulT_assoc]
  congr 1
  rw [ext_iff']
  simp [mulT, Transform.fromTranslate, Transform.one, Transform.zero]

/-- Light sources (point lights): the function commutes with shifting `ts` and the region. -/
theorem C13_light_point_commutes (ts : Transform Rat) (rx ry k m : Rat) (p : Rat × Rat) :
    transformLightXY .point ((Transform.fromTranslate k m).preConcat ts) (rx + k) (ry + m) p
      = transformLightXY .point ts rx ry p := by
  unfold transformLightXY Transform.preConcat
  rw [mapPoint_eq, mapPoint_eq, concat_eq, act_mulT]
  simp only [act, Transform.fromTranslate, Transform.one, Transform.zero, Flt.rat_ofNat, Flt.rat_sub]
  refine Prod.ext ?_ ?_ <;> simp <;> ring

/-- Spot lights (position and target): the function commutes with shifting `ts` and the region — since
    fix 0aa4396, which made the y coordinate relative to the top of the region. -/
theorem C13_light_spot_commutes (ts : Transform Rat) (rx ry k m : Rat) (p : Rat × Rat) :
    transformLightXY .spot ((Transform.fromTranslate k m).preConcat ts) (rx + k) (ry + m) p
      = transformLightXY .spot ts rx ry p := by
  unfold transformLightXY Transform.preConcat
  rw [mapPoint_eq, mapPoint_eq, concat_eq, act_mulT]
  simp only [act, Transform.fromTranslate, Transform.one, Transform.zero, Flt.rat_ofNat, Flt.rat_sub]
  refine Prod.ext ?_ ?_ <;> simp <;> ring

/-- the statement for the code before the fix -/
def C13_light_spot_commutes_old_stmt : Prop :=
  ∀ (ts : Transform Rat) (rx ry k m : Rat) (p : Rat × Rat),
    transformLightXYOld .spot ((Transform.fromTranslate k m).preConcat ts) (rx + k) (ry + m) p
      = transformLightXYOld .spot ts rx ry p

/-- It was false: `light.y = point.y − region.x()` used the x origin for y: shifting by (1, 0) changed y by −1
    (visible whenever the filter region does not start at the layer's origin, e.g. a clamped region). -/
theorem C13_light_spot_commutes_old_false : ¬ C13_light_spot_commutes_old_stmt := by
  intro h
  have := h Transform.identity 0 0 1 0 (0, 0)
  revert this
  decide +kernel

/-- in layer-local coordinates an unclamped single-filter region has origin (0, 0), where both kinds reduce to
    `ts · p`; together with `C13_local_invariant` the light handed to the lighting kernels does not depend on the
    root translation (which is why the slip above stayed latent for ordinary regions). -/
theorem C13_light_local (k : LightKind) (ts : Transform Rat) (p : Rat × Rat) :
    transformLightXY k ts 0 0 p = ts.mapPoint p := by
  cases k <;> simp [transformLightXY]

/-! non-vacuity -/
example : rawLayer (21/2) (-3) 100 (7/2) true = some ⟨8, -5, 104, 8⟩ := by decide +kernel
example : rawLayer (21/2 + 7) (-3 + (-2 : Int)) 100 (7/2) true = some (shiftRect ⟨8, -5, 104, 8⟩ 7 (-2)) := by
  decide +kernel

end Resvg.Props.C13
