/-
  C12 — reported bounding boxes and transforms agree with what is painted (the box algebra).
  Model: Resvg/Geom/BBox.lean.
-/
import Mathlib.Tactic.Linarith
import Mathlib.Tactic.SplitIfs
import Resvg.Geom.BBox
import Resvg.Lemmas.Transform
import Resvg.Generated.StateRestore
import Resvg.Generated.FiniteGuards

namespace Resvg.Props.C12
open Resvg Resvg.Geom Resvg.Lemmas

/-- `outer` contains `inner` -/
def Contains (outer inner : LTRB Rat) : Prop :=
  outer.l ≤ inner.l ∧ outer.t ≤ inner.t ∧ inner.r ≤ outer.r ∧ inner.b ≤ outer.b

/-- point inside a box -/
def Inside (r : LTRB Rat) (p : Rat × Rat) : Prop := r.l ≤ p.1 ∧ p.1 ≤ r.r ∧ r.t ≤ p.2 ∧ p.2 ≤ r.b

theorem min_le_l (a b : Rat) : Flt.min a b ≤ a ∧ Flt.min a b ≤ b := by
  simp only [Flt.rat_min]; split_ifs <;> constructor <;> linarith
theorem le_max_l (a b : Rat) : a ≤ Flt.max a b ∧ b ≤ Flt.max a b := by
  simp only [Flt.rat_max]; split_ifs <;> constructor <;> linarith

theorem contains_refl (a : LTRB Rat) : Contains a a := ⟨le_refl _, le_refl _, le_refl _, le_refl _⟩

theorem contains_trans {a b c : LTRB Rat} (h1 : Contains a b) (h2 : Contains b c) : Contains a c :=
  ⟨le_trans h1.1 h2.1, le_trans h1.2.1 h2.2.1, le_trans h2.2.2.1 h1.2.2.1, le_trans h2.2.2.2 h1.2.2.2⟩

theorem expand_contains (a b : LTRB Rat) : Contains (a.expand b) a ∧ Contains (a.expand b) b := by
  unfold LTRB.expand Contains
  exact ⟨⟨(min_le_l _ _).1, (min_le_l _ _).1, (le_max_l _ _).1, (le_max_l _ _).1⟩,
         ⟨(min_le_l _ _).2, (min_le_l _ _).2, (le_max_l _ _).2, (le_max_l _ _).2⟩⟩

abbrev contrib (c : ChildBox Rat) : LTRB Rat := c.contrib

theorem fold_contains_acc (cs : List (ChildBox Rat)) (acc : LTRB Rat) :
    Contains (cs.foldl (fun acc c => if c.hasBox then acc.expand (contrib c) else acc) acc) acc := by
  induction cs generalizing acc with
  | nil => exact contains_refl _
  | cons c t ih =>
    simp only [List.foldl_cons]
    split_ifs
    · exact contains_trans (ih _) (expand_contains acc (contrib c)).1
    · exact ih _

theorem fold_contains_child (cs : List (ChildBox Rat)) (acc : LTRB Rat) (c : ChildBox Rat) (hc : c ∈ cs)
    (hb : c.hasBox = true) :
    Contains (cs.foldl (fun acc c => if c.hasBox then acc.expand (contrib c) else acc) acc) (contrib c) := by
  induction cs generalizing acc with
  | nil => cases hc
  | cons d t ih =>
    rcases List.mem_cons.mp hc with h | h
    · subst h
      simp only [List.foldl_cons, hb, if_true]
      exact contains_trans (fold_contains_acc t _) (expand_contains acc (contrib c)).2
    · simp only [List.foldl_cons]
      exact ih _ h

/-- **C12 (a parent's box contains its children's), any number of children, any boxes**:
    the box `calculate_bounding_boxes` accumulates for a group contains the contribution of every
    child that has a box (the child's box, mapped by the child's own transform when the child is a group;
    a group with nothing in it has none — its reported boxes are placeholders, fix 2b03884).
    The same fold is used for the object, stroke, absolute and layer boxes. -/
theorem C12_group_box_contains_children (m : Rat) (cs : List (ChildBox Rat)) (c : ChildBox Rat) (hc : c ∈ cs)
    (hb : c.hasBox = true) :
    Contains (groupBox m cs) (contrib c) := by
  unfold groupBox
  exact fold_contains_child cs _ c hc hb

/-- **an empty group changes nothing**: inserting a child without a box anywhere among the children
    leaves the group's box as it was (before the fix its placeholder at the origin was united in) -/
theorem C12_empty_group_child_invisible (m : Rat) (cs₁ cs₂ : List (ChildBox Rat)) (e : ChildBox Rat)
    (he : e.hasBox = false) :
    groupBox m (cs₁ ++ e :: cs₂) = groupBox m (cs₁ ++ cs₂) := by
  unfold groupBox
  rw [List.foldl_append, List.foldl_append, List.foldl_cons]
  simp [he]

/-! ### mapping a box by a transform -/

theorem mul_between (a x l r : Rat) (h : l ≤ x ∧ x ≤ r) :
    Flt.min (a * l) (a * r) ≤ a * x ∧ a * x ≤ Flt.max (a * l) (a * r) := by
  simp only [Flt.rat_min, Flt.rat_max]
  rcases le_or_gt 0 a with ha | ha
  · have h1 : a * l ≤ a * x := mul_le_mul_of_nonneg_left h.1 ha
    have h2 : a * x ≤ a * r := mul_le_mul_of_nonneg_left h.2 ha
    split_ifs <;> constructor <;> linarith
  · have h1 : a * x ≤ a * l := mul_le_mul_of_nonpos_left h.1 (le_of_lt ha)
    have h2 : a * r ≤ a * x := mul_le_mul_of_nonpos_left h.2 (le_of_lt ha)
    split_ifs <;> constructor <;> linarith

/-- a value that is at least one of four numbers is at least their (nested) minimum -/
theorem min4_le (a b c d v : Rat) (h : a ≤ v ∨ b ≤ v ∨ c ≤ v ∨ d ≤ v) :
    Flt.min (Flt.min (Flt.min a b) c) d ≤ v := by
  have h1 := min_le_l (Flt.min (Flt.min a b) c) d
  have h2 := min_le_l (Flt.min a b) c
  have h3 := min_le_l a b
  rcases h with h | h | h | h <;> linarith [h1.1, h1.2, h2.1, h2.2, h3.1, h3.2]

theorem le_max4 (a b c d v : Rat) (h : v ≤ a ∨ v ≤ b ∨ v ≤ c ∨ v ≤ d) :
    v ≤ Flt.max (Flt.max (Flt.max a b) c) d := by
  have h1 := le_max_l (Flt.max (Flt.max a b) c) d
  have h2 := le_max_l (Flt.max a b) c
  have h3 := le_max_l a b
  rcases h with h | h | h | h <;> linarith [h1.1, h1.2, h2.1, h2.2, h3.1, h3.2]

/-- an affine form `a·x + b·y + c` on a rectangle is bounded below by its value at one of the corners -/
theorem affine_ge_corner (a b c x y l r t bt : Rat) (hx : l ≤ x ∧ x ≤ r) (hy : t ≤ y ∧ y ≤ bt) :
    (l * a + t * b + c ≤ x * a + y * b + c) ∨ (r * a + t * b + c ≤ x * a + y * b + c) ∨
    (r * a + bt * b + c ≤ x * a + y * b + c) ∨ (l * a + bt * b + c ≤ x * a + y * b + c) := by
  rcases le_or_gt 0 a with ha | ha <;> rcases le_or_gt 0 b with hb | hb
  · left; nlinarith [mul_le_mul_of_nonneg_left hx.1 ha, mul_le_mul_of_nonneg_left hy.1 hb]
  · right; right; right; nlinarith [mul_le_mul_of_nonneg_left hx.1 ha, mul_le_mul_of_nonpos_left hy.2 (le_of_lt hb)]
  · right; left; nlinarith [mul_le_mul_of_nonpos_left hx.2 (le_of_lt ha), mul_le_mul_of_nonneg_left hy.1 hb]
  · right; right; left; nlinarith [mul_le_mul_of_nonpos_left hx.2 (le_of_lt ha), mul_le_mul_of_nonpos_left hy.2 (le_of_lt hb)]

theorem affine_le_corner (a b c x y l r t bt : Rat) (hx : l ≤ x ∧ x ≤ r) (hy : t ≤ y ∧ y ≤ bt) :
    (x * a + y * b + c ≤ l * a + t * b + c) ∨ (x * a + y * b + c ≤ r * a + t * b + c) ∨
    (x * a + y * b + c ≤ r * a + bt * b + c) ∨ (x * a + y * b + c ≤ l * a + bt * b + c) := by
  have := affine_ge_corner (-a) (-b) (-c) x y l r t bt hx hy
  rcases this with h | h | h | h
  · left; linarith
  · right; left; linarith
  · right; right; left; linarith
  · right; right; right; linarith

/-- **C12 (an absolute box is the object box mapped by the transform)**: for ANY transform — scale,
    rotation, skew, mirror — the box `Rect::transform` returns contains the image of every point of
    the rectangle; nothing the node paints inside its object box can land outside its mapped box. -/
theorem C12_transformed_box_contains_image (r : LTRB Rat) (ts : Transform Rat) (p : Rat × Rat)
    (hp : Inside r p) : Inside (r.transform ts) (Transform.mapPoint ts p) := by
  unfold LTRB.transform
  split_ifs with hid
  · -- identity
    rw [mapPoint_eq]
    have := (isIdentity_iff ts).mp hid
    obtain ⟨h1, h2, h3, h4, h5, h6⟩ := this
    unfold act Inside at *
    simp only [h1, h2, h3, h4, h5, h6]
    refine ⟨by linarith [hp.1], by linarith [hp.2.1], by linarith [hp.2.2.1], by linarith [hp.2.2.2]⟩
  · simp only [mapPoint_eq]
    unfold act Inside
    obtain ⟨hx1, hx2, hy1, hy2⟩ := hp
    refine ⟨?_, ?_, ?_, ?_⟩
    · exact min4_le _ _ _ _ _ (affine_ge_corner ts.sx ts.kx ts.tx p.1 p.2 r.l r.r r.t r.b ⟨hx1, hx2⟩ ⟨hy1, hy2⟩)
    · exact le_max4 _ _ _ _ _ (affine_le_corner ts.sx ts.kx ts.tx p.1 p.2 r.l r.r r.t r.b ⟨hx1, hx2⟩ ⟨hy1, hy2⟩)
    · exact min4_le _ _ _ _ _ (affine_ge_corner ts.ky ts.sy ts.ty p.1 p.2 r.l r.r r.t r.b ⟨hx1, hx2⟩ ⟨hy1, hy2⟩)
    · exact le_max4 _ _ _ _ _ (affine_le_corner ts.ky ts.sy ts.ty p.1 p.2 r.l r.r r.t r.b ⟨hx1, hx2⟩ ⟨hy1, hy2⟩)

/-! ### absolute transforms -/

/-- **C12 (the absolute transform is the product of the ancestors' transforms)**: mapping a point
    by `abs_transform` is mapping it by the node's own transform first, then by each ancestor's,
    outwards to the root transform — for any chain length. -/
theorem C12_abs_transform_is_product (root : Transform Rat) (chain : List (Transform Rat)) (p : Rat × Rat) :
    act (absTransform root chain) p = act root (chain.foldr (fun t q => act t q) p) := by
  unfold absTransform
  induction chain generalizing root with
  | nil => rfl
  | cons t rest ih =>
    simp only [List.foldl_cons, List.foldr_cons]
    rw [ih]
    simp only [Transform.preConcat, concat_eq, act_mulT]

/-- together: a point of a node's object box, pushed through all ancestor transforms, lies in the
    object box mapped by the absolute transform -/
theorem C12_abs_box_contains_painted_point (root : Transform Rat) (chain : List (Transform Rat))
    (r : LTRB Rat) (p : Rat × Rat) (hp : Inside r p) :
    Inside (r.transform (absTransform root chain)) (act root (chain.foldr (fun t q => act t q) p)) := by
  rw [← C12_abs_transform_is_product, ← mapPoint_eq]
  exact C12_transformed_box_contains_image r _ p hp

/-- non-vacuity: a rotated-and-skewed box -/
example : let b := LTRB.transform (⟨0, 0, 10, 20⟩ : LTRB Rat) ⟨0, 1, -1, 1, 5, 5⟩
    b.l = -15 ∧ b.t = 5 ∧ b.r = 5 ∧ b.b = 35 := by decide +kernel

/-! ### a dropped instance leaves nothing behind -/

/-- `use_node::convert_children`: the parent's absolute transform is multiplied by the instance transform for
    the time of the conversion and put back afterwards; `conv` is the conversion (it may drop the instance) -/
def convertInstance (parentAbs inst : Transform Rat) (conv : Transform Rat → Option (Transform Rat)) :
    Option (Transform Rat) × Transform Rat :=
  (conv (parentAbs.preConcat inst), parentAbs)

/-- what three independent seeded slips did: the restore only on the path where the instance is kept -/
def convertInstanceLeaky (parentAbs inst : Transform Rat) (conv : Transform Rat → Option (Transform Rat)) :
    Option (Transform Rat) × Transform Rat :=
  match conv (parentAbs.preConcat inst) with
  | some g => (some g, parentAbs)
  | none => (none, parentAbs.preConcat inst)

/-- **whatever happens to the instance, the parent's absolute transform is what it was** — so the siblings
    converted afterwards get the product of their own ancestors; the translator checks on every run that the
    source has this shape (restore at the depth of the save, no early exit in between, last statement) -/
theorem C12_instance_conversion_restores (parentAbs inst : Transform Rat)
    (conv : Transform Rat → Option (Transform Rat)) :
    (convertInstance parentAbs inst conv).2 = parentAbs ∧
    ∀ e ∈ Generated.stateRestores, e.2.2 = (true, true, true) := by
  refine ⟨rfl, ?_⟩
  decide

/-- the leaky version keeps a dropped instance's offset: `use x="60" y="30"` dropped under an identity parent -/
theorem C12_leaky_conversion_displaces :
    act (convertInstanceLeaky ⟨1, 0, 0, 1, 0, 0⟩ ⟨1, 0, 0, 1, 60, 30⟩ (fun _ => none)).2 (0, 0) = (60, 30) ∧
    act (convertInstance ⟨1, 0, 0, 1, 0, 0⟩ ⟨1, 0, 0, 1, 60, 30⟩ (fun _ => none)).2 (0, 0) = (0, 0) := by
  constructor <;> decide +kernel

/-! ### the absolute box of an image -/

/-- `image::convert_inner`: the image group maps the image's own rect `0 0 w h` (its size in image
    pixels / nested user units) onto the fitted view box `vx vy vw vh` inside the element rect -/
def imageTs (w h vx vy vw vh : Rat) : Transform Rat := ⟨vw / w, 0, 0, vh / h, vx, vy⟩

/-- the absolute box as the code computes it now: the own rect under the absolute transform -/
def imageAbsBox (w h : Rat) (abs : Transform Rat) : LTRB Rat := (LTRB.fromXywh 0 0 w h).transform abs

/-- … and before fix 5463222: the *element* rect under the same transform -/
def imageAbsBoxOld (x y ew eh : Rat) (abs : Transform Rat) : LTRB Rat := (LTRB.fromXywh x y ew eh).transform abs

/-- **every point of the image lies in its reported absolute box**, for any absolute transform; the
    translator checks on every run that the source computes the box from the own rect -/
theorem C12_image_abs_box_contains_image (w h : Rat) (abs : Transform Rat) (p : Rat × Rat)
    (hp : Inside (LTRB.fromXywh 0 0 w h) p) :
    Inside (imageAbsBox w h abs) (Transform.mapPoint abs p) ∧ Generated.imageAbsBoxFromOwnRect = true :=
  ⟨C12_transformed_box_contains_image _ _ _ hp, by decide⟩

/-- the former computation: a 2x2 image shown at 56,64 as 41x31 under an identity parent was reported
    at 1204,1056 (and the corner pixel 0,0 of the image, painted at 56,64, is outside that box) -/
theorem C12_old_image_abs_box_wrong :
    (imageAbsBoxOld 56 64 41 31 (imageTs 2 2 56 64 41 31)).l = 1204 ∧
    (imageAbsBox 2 2 (imageTs 2 2 56 64 41 31)).l = 56 ∧
    (imageAbsBox 2 2 (imageTs 2 2 56 64 41 31)).r = 97 ∧
    Transform.mapPoint (imageTs 2 2 56 64 41 31) (0, 0) = (56, 64) ∧
    ¬ Inside (imageAbsBoxOld 56 64 41 31 (imageTs 2 2 56 64 41 31)) (Transform.mapPoint (imageTs 2 2 56 64 41 31) (0, 0)) := by
  have h1 : (imageAbsBoxOld 56 64 41 31 (imageTs 2 2 56 64 41 31)).l = 1204 := by decide +kernel
  have h4 : Transform.mapPoint (imageTs 2 2 56 64 41 31) (0, 0) = (56, 64) := by decide +kernel
  refine ⟨h1, by decide +kernel, by decide +kernel, h4, ?_⟩
  intro hin
  unfold Inside at hin
  rw [h4, h1] at hin
  norm_num at hin

end Resvg.Props.C12
