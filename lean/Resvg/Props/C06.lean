/-
  C06 — results are reproducible.  Two parts:
   * the translator lists every use of a hash container in the library sources and every other
     source of run-to-run variation (Generated/Determinism.lean); the first theorem checks that list:
     only key-based operations, nothing else;
   * for a container used only through key-based operations, the order of its entries - the one
     thing a per-process hash seed changes - cannot be observed (Resvg/Det/KeyedMap.lean).
-/
import Mathlib.Data.List.Perm.Basic
import Mathlib.Data.List.Nodup
import Mathlib.Tactic.SplitIfs
import Resvg.Det.KeyedMap
import Resvg.Generated.Determinism

namespace Resvg.Props.C06
open Resvg.Det Resvg.Generated

/-- the operations that do not expose the order of the entries -/
def keyBased : List String :=
  ["new", "insert", "get", "get_mut", "contains_key", "contains", "remove", "clear", "len", "is_empty", "entry"]

/-- **every hash container of the library is used through key-based operations only**
    (no `iter`, `keys`, `values`, `drain`, `retain`, `for … in`), in the CURRENT sources -/
theorem C06_hash_containers_key_based : hashUses.all (fun u => keyBased.contains u.2.2) = true := by
  decide +kernel

/-- **no other source of run-to-run variation** (random state, clocks, environment, thread
    spawning, addresses used as values, thread-local or mutable static state) in the CURRENT
    library sources -/
theorem C06_no_variation_sources : variationSources = [] := by decide +kernel

/-! ### order of entries is unobservable -/

theorem get_of_not_mem_keys (k : String) (m : Store) (h : k ∉ keys m) : sget k m = none := by
  induction m with
  | nil => rfl
  | cons e rest ih =>
    obtain ⟨k', v⟩ := e
    simp only [keys, List.map_cons, List.mem_cons, not_or] at h
    simp only [sget]
    split_ifs with hk
    · exact absurd hk.symm h.1
    · exact ih h.2

theorem get_perm (k : String) {m1 m2 : Store} (hp : m1.Perm m2) (hn : (keys m1).Nodup) :
    sget k m1 = sget k m2 := by
  induction hp with
  | nil => rfl
  | cons e _ ih =>
    obtain ⟨k', v⟩ := e
    simp only [keys, List.map_cons, List.nodup_cons] at hn
    simp only [sget]
    split_ifs
    · rfl
    · exact ih hn.2
  | swap a b l =>
    obtain ⟨ka, va⟩ := a
    obtain ⟨kb, vb⟩ := b
    simp only [keys, List.map_cons, List.nodup_cons, List.mem_cons, not_or] at hn
    simp only [sget]
    by_cases h1 : kb = k <;> by_cases h2 : ka = k
    · exact absurd (h1.trans h2.symm) hn.1.1
    · simp [h1, h2]
    · simp [h1, h2]
    · simp [h1, h2]
  | trans h1 _ ih1 ih2 =>
    have hn2 : (keys _).Nodup := (List.Perm.nodup_iff (List.Perm.map Prod.fst h1)).mp hn
    exact (ih1 hn).trans (ih2 hn2)

theorem keys_filter_nodup (k : String) (m : Store) (hn : (keys m).Nodup) :
    (keys (m.filter (fun e => e.1 != k))).Nodup := by
  unfold keys at *
  exact List.Nodup.sublist (List.Sublist.map _ List.filter_sublist) hn

theorem not_mem_keys_filter (k : String) (m : Store) : k ∉ keys (m.filter (fun e => e.1 != k)) := by
  unfold keys
  intro h
  obtain ⟨e, he, hk⟩ := List.mem_map.mp h
  have := (List.mem_filter.mp he).2
  simp [hk] at this

theorem insert_keys_nodup (k : String) (v : Nat) (m : Store) (hn : (keys m).Nodup) :
    (keys (sinsert k v m)).Nodup := by
  unfold sinsert
  have h1 := keys_filter_nodup k m hn
  have h2 := not_mem_keys_filter k m
  simp only [keys, List.map_cons, List.nodup_cons] at *
  exact ⟨h2, h1⟩

theorem insert_perm (k : String) (v : Nat) {m1 m2 : Store} (hp : m1.Perm m2) :
    (sinsert k v m1).Perm (sinsert k v m2) := by
  unfold sinsert
  exact List.Perm.cons _ (List.Perm.filter _ hp)

/-- **C06 (hash order cannot be observed)**: two containers holding the same entries in different
    orders (two processes, two hash seeds) answer every program of key-based operations - any
    sequence of reads, insertions and clears - with exactly the same values. -/
theorem C06_order_unobservable (ops : List Op) (m1 m2 : Store) (hp : m1.Perm m2) (hn : (keys m1).Nodup) :
    run ops m1 = run ops m2 := by
  induction ops generalizing m1 m2 with
  | nil => rfl
  | cons op rest ih =>
    cases op with
    | get k =>
      simp only [run]
      rw [get_perm k hp hn, ih m1 m2 hp hn]
    | insert k v =>
      simp only [run]
      exact ih _ _ (insert_perm k v hp) (insert_keys_nodup k v m1 hn)
    | clear =>
      simp only [run]

example : run [.insert "a" 1, .insert "b" 2, .get "a", .insert "a" 3, .get "a", .clear, .get "b"] []
    = [some 1, some 3, none] := by decide +kernel

end Resvg.Props.C06
