/- Boolean row predicates for the exhaustive 8-bit statements of C16 (decided in H1…H4). -/
import Resvg.Render.Pixel
namespace Resvg.Props.C16
open Resvg.Pixel Resvg.F32

def near (x c : Nat) : Bool := Nat.ble x (c + 1) && Nat.ble c (x + 1)

/-- `multiply_alpha` never produces a channel above alpha -/
def mulValidRow (a : Nat) : Bool := (List.range 256).all fun c => Nat.ble (mulAlpha c a) a

/-- demultiply then multiply is the identity on valid premultiplied channels -/
def demulMulRow (a : Nat) : Bool :=
  (List.range (a + 1)).all fun c => Nat.beq (mulAlpha (demulAlpha c a) a) c

/-- `(c as f32 / 255.0 * 255.0) as u8` with the extra roundings of an identity matrix row / linear
    transfer with slope 1, intercept 0: what `from_normalized` returns for an unchanged channel -/
def idChan (c : Nat) : Nat := fromNormalized rnd (rnd ((c : Rat) / 255))

def idChanRow : Bool := (List.range 256).all fun c => Nat.beq (idChan c) c

/-- an identity row of a colour matrix / `Linear {1, 0}` after the zero terms are simplified away -/
def idRow (c : Nat) : Nat :=
  fromNormalized rnd (rnd (rnd (rnd (rnd (rnd ((c : Rat) / 255)))))) 

def idRowAll : Bool := (List.range 256).all fun c => Nat.beq (idRow c) c

/-- all LUT entries are bytes -/
def lutBytes : Bool :=
  Resvg.Generated.srgbToLinear.all (fun x => Nat.ble x 255) && Resvg.Generated.linearToSrgb.all (fun x => Nat.ble x 255)
  && Nat.beq Resvg.Generated.srgbToLinear.length 256 && Nat.beq Resvg.Generated.linearToSrgb.length 256

end Resvg.Props.C16
