import Resvg.Props.C16.Defs
namespace Resvg.Props.C16
/-- exhaustive over the 65 536 (c, a) pairs, checked by the kernel -/
theorem mulValid_all : (List.range 256).all mulValidRow = true := by decide +kernel
end Resvg.Props.C16
