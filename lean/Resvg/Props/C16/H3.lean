import Resvg.Props.C16.Defs
namespace Resvg.Props.C16
theorem idChan_all : idChanRow = true := by decide +kernel
theorem idRow_all : idRowAll = true := by decide +kernel
theorem lutBytes_ok : lutBytes = true := by decide +kernel
end Resvg.Props.C16
