import Resvg.Props.C16.Defs
namespace Resvg.Props.C16
/-- exhaustive over the 32 896 pairs c ≤ a, checked by the kernel -/
theorem demulMul_all : (List.range 256).all demulMulRow = true := by decide +kernel
end Resvg.Props.C16
