/-
  C03 — Cyclic references of any length and kind are neutralised.
  Models: Resvg/SvgTree/Links.lean (`HrefIter`), Resvg/Convert/Skeleton.lean (converter recursion
  with the in-progress stack `State::parent_defs` / `parent_markers`).
  The theorems hold for *every* finite reference graph; the code before the fixes ae7a68b / 1310f19
  is kept in the model (`collectOld`, `visitOld`) and proved to diverge on the minimal cycles.
-/
import Mathlib.Data.List.Perm.Subperm
import Mathlib.Tactic.Linarith
import Mathlib.Tactic.SplitIfs
import Mathlib.Tactic.IntervalCases
import Mathlib.Tactic.NormNum
import Resvg.SvgTree.Links
import Resvg.Convert.Skeleton
import Resvg.Generated.Guards

namespace Resvg.Props.C03
open Resvg.SvgTree Resvg.Convert

/-- pigeonhole: a duplicate-free list inside another list is not longer -/
theorem nodup_subset_length {l m : List Nat} (hd : l.Nodup) (hs : ∀ x ∈ l, x ∈ m) : l.length ≤ m.length :=
  (List.Nodup.subperm hd hs).length_le

theorem nodup_lt_length {l : List Nat} {n : Nat} (hd : l.Nodup) (hl : ∀ x ∈ l, x < n) : l.length ≤ n := by
  have := nodup_subset_length (m := List.range n) hd (fun x hx => List.mem_range.mpr (hl x hx))
  simpa using this

/-! ### xlink:href chains -/

/-- invariant of a running iterator: the elements yielded so far (`visited ++ [curr]`) are pairwise
    distinct nodes of the document, and the origin is among them -/
def Inv (n : Nat) (s : HrefIter) : Prop :=
  s.isFirst = false ∧ (s.visited ++ [s.curr]).Nodup ∧ (∀ x ∈ s.visited ++ [s.curr], x < n)

theorem collect_bounded (n : Nat) (href : Nat → Option Nat) (hh : ∀ a b, href a = some b → b < n)
    (fuel : Nat) (s : HrefIter) (hs : Inv n s) :
    (HrefIter.collect href fuel s).length + (s.visited.length + 1) ≤ n := by
  induction fuel generalizing s with
  | zero =>
    simp only [HrefIter.collect, List.length_nil, Nat.zero_add]
    have := nodup_lt_length hs.2.1 hs.2.2
    simpa using this
  | succ fuel ih =>
    obtain ⟨hf, hnd, hlt⟩ := hs
    have base : s.visited.length + 1 ≤ n := by
      have := nodup_lt_length hnd hlt; simpa using this
    unfold HrefIter.collect HrefIter.next
    by_cases hfin : s.isFinished = true
    · simp [hfin]; omega
    · simp only [hfin, Bool.false_eq_true, if_false, hf]
      cases hl : href s.curr with
      | none => simp; omega
      | some link =>
        simp only
        by_cases hc : link = s.curr ∨ link = s.origin ∨ link ∈ s.visited
        · simp [hc]; omega
        · simp only [hc, if_false, List.length_cons]
          push_neg at hc
          have hinv : Inv n { s with visited := s.visited ++ [s.curr], curr := link } := by
            refine ⟨hf, ?_, ?_⟩
            · simp only
              rw [List.nodup_append] at hnd ⊢
              refine ⟨by simpa [List.nodup_append] using hnd, by simp, ?_⟩
              intro a ha b hb
              simp only [List.mem_singleton] at hb
              subst hb
              rcases List.mem_append.mp ha with h | h
              · intro e; subst e; exact hc.2.2 h
              · simp only [List.mem_singleton] at h; subst h; exact fun e => hc.1 e.symm
            · intro x hx
              simp only at hx
              rcases List.mem_append.mp hx with h | h
              · exact hlt x h
              · simp only [List.mem_singleton] at h; subst h; exact hh _ _ hl
          have := ih _ hinv
          have hfin' : s.isFinished = false := by simpa using hfin
          dsimp only at this ⊢
          rw [hf, hfin'] at this
          simp only [List.length_append, List.length_singleton] at this
          omega

/-- **An xlink:href chain always ends**: whatever the links are (any cycle, entered from anywhere),
    the iterator yields at most `n` elements, all distinct — so every `for … in href_iter()` loop
    of the converter terminates. -/
theorem C03_href_iter_terminates (n : Nat) (href : Nat → Option Nat)
    (hh : ∀ a b, href a = some b → b < n) (o : Nat) (ho : o < n) (fuel : Nat) :
    (HrefIter.collect href fuel (HrefIter.start o)).length ≤ n := by
  cases fuel with
  | zero => simp [HrefIter.collect]
  | succ fuel =>
    unfold HrefIter.collect HrefIter.next HrefIter.start
    simp only [Bool.false_eq_true, if_false, if_true, List.length_cons]
    have hinv : Inv n { origin := o, curr := o, visited := [], isFirst := false, isFinished := false } :=
      ⟨rfl, by simp, by intro x hx; simp at hx; subst hx; exact ho⟩
    have := collect_bounded n href hh fuel _ hinv
    simp only [List.length_nil] at this
    omega

/-- the chain `a → b → c → b` -/
def cycHref : Nat → Option Nat
  | 0 => some 1
  | 1 => some 2
  | 2 => some 1
  | _ => none

/-- The iterator *before* fix ae7a68b never ends on it: for every fuel it yields `fuel` elements
    (findings/C03/href-cycle.svg hung the parser). -/
theorem C03_href_iter_old_diverges (fuel : Nat) :
    (HrefIter.collectOld cycHref fuel (HrefIter.start 0)).length = fuel := by
  have key : ∀ fuel (c : Nat) (v : List Nat), (c = 1 ∨ c = 2) →
      (HrefIter.collectOld cycHref fuel ⟨0, c, v, false, false⟩).length = fuel := by
    intro fuel
    induction fuel with
    | zero => intros; rfl
    | succ f ih =>
      intro c v hc
      rcases hc with h | h <;> subst h <;>
        simp [HrefIter.collectOld, HrefIter.nextOld, cycHref, ih]
  cases fuel with
  | zero => rfl
  | succ f =>
    cases f with
    | zero => simp [HrefIter.collectOld, HrefIter.nextOld, HrefIter.start]
    | succ f =>
      simp [HrefIter.collectOld, HrefIter.nextOld, HrefIter.start, cycHref, key f 1 [] (Or.inl rfl)]

/-! ### the converter's recursion -/

theorem sumOpt_isSome (xs : List (Option Nat)) (h : ∀ x ∈ xs, x.isSome) : (sumOpt xs).isSome := by
  unfold sumOpt
  suffices H : ∀ (acc : Option Nat), acc.isSome → (xs.foldl (fun acc x => match acc, x with
      | some a, some b => some (a + b)
      | _, _ => none) acc).isSome from H (some 0) rfl
  induction xs with
  | nil => intro acc ha; simpa using ha
  | cons x xs ih =>
    intro acc ha
    simp only [List.foldl_cons]
    apply ih (fun y hy => h y (List.mem_cons_of_mem _ hy))
    have hx := h x (List.mem_cons_self)
    cases acc <;> cases x <;> simp_all

/-- hypotheses under which the guarded traversal is bounded:
    `ms` lists the marked elements; `rank` decreases along every edge between unmarked elements
    (the unmarked part of the graph — children, shapes, groups, feImage targets — is acyclic, which
    holds because it is a finite tree after `use` expansion and every reference edge ends in a
    marked element or is owned by one) -/
structure Bounded (g : RefGraph) (ms : List Nat) (rank : Nat → Nat) (R : Nat) : Prop where
  marked_listed : ∀ e, g.marked e = true → e ∈ ms
  rank_lt : ∀ e, g.marked e = false → rank e < R
  rank_dec : ∀ u v, v ∈ g.succ u → g.marked u = false → g.marked v = false → rank v < rank u

/-- fuel that suffices for `visit g _ st e` -/
def need (g : RefGraph) (ms : List Nat) (rank : Nat → Nat) (R : Nat) (st : List Nat) (e : Nat) : Nat :=
  if g.marked e then (if e ∈ st then 1 else (ms.length - st.length) * (R + 1) + 1)
  else (ms.length - st.length) * (R + 1) + rank e + 2

theorem visit_isSome (g : RefGraph) (ms : List Nat) (rank : Nat → Nat) (R : Nat) (hb : Bounded g ms rank R)
    (fuel : Nat) (st : List Nat) (e : Nat) (hnd : st.Nodup) (hst : ∀ x ∈ st, x ∈ ms)
    (hf : need g ms rank R st e ≤ fuel) : (visit g fuel st e).isSome := by
  induction fuel generalizing st e with
  | zero =>
    unfold need at hf; split_ifs at hf <;> omega
  | succ fuel ih =>
    have hlen : st.length ≤ ms.length := nodup_subset_length hnd hst
    unfold visit
    by_cases hm : g.marked e = true
    · simp only [hm, if_true]
      unfold enterDef
      by_cases hin : e ∈ st
      · simp [hin]
      · simp only [hin, if_false]
        have hnd' : (e :: st).Nodup := List.nodup_cons.mpr ⟨hin, hnd⟩
        have hst' : ∀ x ∈ e :: st, x ∈ ms := by
          intro x hx; rcases List.mem_cons.mp hx with h | h
          · subst h; exact hb.marked_listed _ hm
          · exact hst x h
        have hlen' : st.length + 1 ≤ ms.length := by
          have := nodup_subset_length hnd' hst'; simpa using this
        unfold need at hf
        simp only [hm, if_true, hin, if_false] at hf
        rw [Option.isSome_map]
        apply sumOpt_isSome
        intro x hx
        obtain ⟨c, _, rfl⟩ := List.mem_map.mp hx
        apply ih _ _ hnd' hst'
        unfold need
        have e1 : ms.length - (e :: st).length = ms.length - st.length - 1 := by simp; omega
        have hk : 1 ≤ ms.length - st.length := by omega
        have hmul : (ms.length - st.length - 1) * (R + 1) + (R + 1) = (ms.length - st.length) * (R + 1) := by
          have : ms.length - st.length = (ms.length - st.length - 1) + 1 := by omega
          conv_rhs => rw [this, Nat.add_mul, Nat.one_mul]
        split_ifs with h1 h2
        · omega
        · rw [e1]; omega
        · rw [e1]
          have := hb.rank_lt c (by simpa using h1)
          omega
    · simp only [Bool.not_eq_true] at hm
      simp only [hm, Bool.false_eq_true, if_false]
      unfold need at hf
      simp only [hm, Bool.false_eq_true, if_false] at hf
      rw [Option.isSome_map]
      apply sumOpt_isSome
      intro x hx
      obtain ⟨c, hc, rfl⟩ := List.mem_map.mp hx
      apply ih _ _ hnd hst
      unfold need
      split_ifs with h1 h2
      · omega
      · omega
      · have := hb.rank_dec e c hc hm (by simpa using h1)
        omega

/-- **Cycles of any length and kind are neutralised.**  For every finite reference graph whose
    unguarded part is acyclic, converting any element with the in-progress stack empty terminates
    (the explicit fuel is a bound on the recursion depth: the stack cannot overflow because of a
    reference cycle, whatever mix of clip-path / mask / filter / feImage / pattern / marker links it
    is made of, and from wherever it is entered). -/
theorem C03_neutralised (g : RefGraph) (ms : List Nat) (rank : Nat → Nat) (R : Nat)
    (hb : Bounded g ms rank R) (e : Nat) :
    (visit g (ms.length * (R + 1) + R + 2) [] e).isSome := by
  apply visit_isSome g ms rank R hb _ [] e List.nodup_nil (by simp)
  unfold need
  split_ifs with h1 h2
  · omega
  · simp; omega
  · have := hb.rank_lt e (by simpa using h1)
    simp; omega

/-- a 3-cycle `a → b → c → a` of guarded elements (e.g. three clipPaths) -/
def cyc3 : RefGraph :=
  { succ := fun e => if e < 3 then [(e + 1) % 3] else [], marked := fun e => decide (e < 3) }

/-- Without the guard (before fix 1310f19) the recursion never bottoms out on it: every fuel is
    exhausted — the stack overflow of findings/C03/clip-3-cycle.svg. -/
theorem C03_old_diverges (fuel : Nat) (e : Nat) (he : e < 3) : visitOld cyc3 fuel e = none := by
  induction fuel generalizing e with
  | zero => rfl
  | succ f ih =>
    have hs : cyc3.succ e = [(e + 1) % 3] := by simp [cyc3, he]
    have hlt : (e + 1) % 3 < 3 := Nat.mod_lt _ (by norm_num)
    simp only [visitOld, hs, List.map_cons, List.map_nil, sumOpt, List.foldl_cons, List.foldl_nil, ih _ hlt]
    rfl

/-- …while the guarded traversal cuts it after three visits. -/
example : visit cyc3 10 [] 0 = some 4 := by decide +kernel

/-- non-vacuity of `Bounded`: cyc3 with all three elements marked -/
example : Bounded cyc3 [0, 1, 2] (fun _ => 0) 1 :=
  ⟨fun e h => by
      have : e < 3 := by simpa [cyc3] using h
      interval_cases e <;> simp,
   fun e _ => by norm_num,
   fun u v hv hu _ => by
      have hu' : ¬ u < 3 := by simpa [cyc3] using hu
      simp [cyc3, hu'] at hv⟩

/-- The translator found, in the current sources, the guard call in every function that follows a
    reference into a definition element (before anything is converted), the marker guard, the
    `HrefIter` visited list and the `use` expansion stack: the structural hypothesis under which the
    skeleton above is the code's recursion. (Regenerated on every run; a removed or displaced guard
    makes the translator fail or this list shrink.) -/
theorem C03_guards_present :
    Resvg.Generated.cycleGuards.map (fun g => (g.1, g.2.1)) =
      [("clippath.rs", "convert"), ("mask.rs", "convert"), ("filter.rs", "convert_url"),
       ("paint_server.rs", "convert_pattern"), ("marker.rs", "convert"), ("marker.rs", "resolve"),
       ("converter.rs", "enter_def"), ("converter.rs", "enter_def"), ("svgtree/mod.rs", "next"),
       ("svgtree/mod.rs", "next"), ("svgtree/parse.rs", "parse_svg_use_element"),
       ("svgtree/parse.rs", "parse_svg_use_element"), ("svgtree/parse.rs", "parse_svg_use_element")] := by decide +kernel

/-! ### the pre-pass that cuts self-referencing patterns cannot crash

`fix_recursive_patterns` asks `find_recursive_pattern` for a node whose paint links back to the pattern
and overwrites that node's OWN attribute (`attribute_id(aid).unwrap()`).  The unwrap is safe exactly
when the search reads the own attribute; a search along the ancestors returns nodes that merely inherit
the link (a pattern defined inside a group painted with it). -/

/-- a pattern descendant: the link written on it, and the link it would inherit from its closest ancestor -/
structure PaintNode where
  own : Option Nat
  inherited : Option Nat
deriving DecidableEq, Repr

/-- `find_recursive_pattern` for pattern `p` over its descendants; `alongAncestors` = `find_attribute` -/
def findRecursive (alongAncestors : Bool) (p : Nat) (descendants : List PaintNode) : Option PaintNode :=
  descendants.find? (fun n => (if alongAncestors then n.own.orElse (fun _ => n.inherited) else n.own) == some p)

/-- **the node handed to the rewrite carries the attribute** (own-attribute search, as in the current
    sources: the translator counts the reads) — `attribute_id(aid).unwrap()` cannot fail -/
theorem C03_recursive_pattern_rewrite_safe (p : Nat) (ds : List PaintNode) (n : PaintNode)
    (h : findRecursive false p ds = some n) :
    n.own = some p ∧ Generated.recursivePatternInheritedReads = 0 ∧ 0 < Generated.recursivePatternOwnReads := by
  refine ⟨?_, by decide, by decide⟩
  unfold findRecursive at h
  have := List.find?_some h
  simpa using this

/-- a search along the ancestors hands out a node without the attribute: the unwrap panics
    (pattern 7 defined inside a group filled with pattern 7) -/
theorem C03_inherited_search_breaks_rewrite :
    ∃ n, findRecursive true 7 [⟨none, some 7⟩] = some n ∧ n.own = none := by
  exact ⟨⟨none, some 7⟩, by decide, rfl⟩

end Resvg.Props.C03
