/-
  C02 — Rendering is total; every group layer is bounded by the 5×5-canvas box.
  Model: Resvg/Render/Layer.lean (render.rs `render_group`, geom.rs `fit_to_rect`, lib.rs max_bbox).
-/
import Mathlib.Tactic.Linarith
import Mathlib.Tactic.SplitIfs
import Resvg.Lemmas.Basic
import Resvg.Render.Layer
import Resvg.Render.SizeBook
import Resvg.Generated.RenderLimits
import Resvg.Render.TurbSeed
import Mathlib.Algebra.Order.Floor.Ring
import Mathlib.Tactic.Positivity

namespace Resvg.Props.C02
open Resvg.Render Resvg.Render.IntRect

theorem fromXywh_some {x y w h : Int} {r : IntRect} (hr : fromXywh x y w h = some r) :
    r = ⟨x, y, w, h⟩ ∧ 1 ≤ w ∧ 1 ≤ h ∧ x + w ≤ i32Max ∧ y + h ≤ i32Max := by
  unfold fromXywh at hr
  split_ifs at hr with h1 h2 h3
  · injection hr with hr; subst hr
    refine ⟨rfl, ?_, ?_, ?_, ?_⟩ <;> omega

theorem fromLtrb_some {l t r b : Int} {q : IntRect} (hq : fromLtrb l t r b = some q) :
    q = ⟨l, t, r - l, b - t⟩ ∧ l < r ∧ t < b := by
  unfold fromLtrb at hq
  split_ifs at hq with h1 h2
  · obtain ⟨e, hw, hh, _, _⟩ := fromXywh_some hq
    exact ⟨e, by omega, by omega⟩

/-- `fit_to_rect` returns a rectangle inside both arguments. -/
theorem C02_fit_sub (r b q : IntRect) (h : fitToRect r b = some q) : q.subset r ∧ q.subset b := by
  unfold fitToRect at h
  obtain ⟨e, _, _⟩ := fromLtrb_some h
  subst e
  unfold IntRect.subset IntRect.right IntRect.bottom
  simp only
  constructor <;> (refine ⟨?_, ?_, ?_, ?_⟩ <;> split_ifs <;> omega)

theorem fromLtrb_eq (l t r b : Int) (hr : r ≤ i32Max) (hb : b ≤ i32Max)
    (hr' : i32Min ≤ r) (hb' : i32Min ≤ b) (hl : i32Min ≤ l) (ht : i32Min ≤ t)
    (hw : r - l ≤ i32Max) (hh : b - t ≤ i32Max) :
    fromLtrb l t r b = if l < r ∧ t < b then some ⟨l, t, r - l, b - t⟩ else none := by
  unfold fromLtrb fromXywh
  unfold i32Min i32Max at *
  split_ifs <;> first | rfl | omega

/-- … and it is exactly the intersection: it fails only when the rectangles do not overlap in a
    set of positive area. -/
theorem C02_fit_none_iff_disjoint (r b : IntRect)
    (hr : 1 ≤ r.w ∧ 1 ≤ r.h ∧ i32Min ≤ r.x ∧ i32Min ≤ r.y ∧ r.right ≤ i32Max ∧ r.bottom ≤ i32Max)
    (hb : 1 ≤ b.w ∧ 1 ≤ b.h ∧ i32Min ≤ b.x ∧ i32Min ≤ b.y ∧ b.right ≤ i32Max ∧ b.bottom ≤ i32Max)
    (hrw : r.w ≤ i32Max ∧ r.h ≤ i32Max) :
    fitToRect r b = none ↔
      ¬ (max r.x b.x < min r.right b.right ∧ max r.y b.y < min r.bottom b.bottom) := by
  unfold fitToRect
  have e1 : (if r.x < b.x then b.x else r.x) = max r.x b.x := by rw [Int.max_def]; split_ifs <;> omega
  have e2 : (if r.y < b.y then b.y else r.y) = max r.y b.y := by rw [Int.max_def]; split_ifs <;> omega
  have e3 : (if r.right > b.right then b.right else r.right) = min r.right b.right := by
    rw [Int.min_def]; split_ifs <;> omega
  have e4 : (if r.bottom > b.bottom then b.bottom else r.bottom) = min r.bottom b.bottom := by
    rw [Int.min_def]; split_ifs <;> omega
  simp only [e1, e2, e3, e4]
  unfold IntRect.right IntRect.bottom i32Min i32Max at hr hb
  rw [fromLtrb_eq] <;> try (simp only [IntRect.right, IntRect.bottom, i32Min, i32Max] at *; omega)
  split_ifs with h
  · exact ⟨fun e => by simp at e, fun hn => absurd h hn⟩
  · exact ⟨fun _ => h, fun _ => rfl⟩

/-- Every group layer (with or without filters) lies inside the maximum box, hence its size is at
    most `max.w × max.h` = 5W × 5H: bounded by the canvas, never by the document. -/
theorem C02_layer_bounded (x y w h : Rat) (nf : Bool) (mb r : IntRect)
    (hl : layerRect x y w h nf mb = .ok (some r)) : r.subset mb ∧ r.w ≤ mb.w ∧ r.h ≤ mb.h := by
  have key : ∀ q : IntRect, fitToRect q mb = some r → r.subset mb ∧ r.w ≤ mb.w ∧ r.h ≤ mb.h := by
    intro q hq
    have hs := (C02_fit_sub q mb r hq).2
    refine ⟨hs, ?_, ?_⟩ <;>
      (unfold IntRect.subset IntRect.right IntRect.bottom at hs; omega)
  unfold layerRect at hl
  cases nf
  · simp only [Bool.false_eq_true, if_false] at hl
    split at hl
    · cases hl
    · rename_i q _
      injection hl with hl
      exact key q hl
  · simp only [if_true] at hl
    split at hl
    · cases hl
    · rename_i q _
      injection hl with hl
      exact key q hl

/-- The maximum box is 5 canvases wide and high and contains the canvas. -/
theorem C02_max_box (W H : Int) (mb : IntRect) (h : maxBBox W H = .ok mb) (hW : 1 ≤ W) (hH : 1 ≤ H) :
    mb.w = 5 * W ∧ mb.h = 5 * H ∧ (⟨0, 0, W, H⟩ : IntRect).subset mb := by
  unfold maxBBox at h
  split_ifs at h
  split at h
  · rename_i q hq
    injection h with h; subst h
    obtain ⟨e, _⟩ := fromXywh_some hq
    subst e
    unfold IntRect.subset IntRect.right IntRect.bottom
    simp only
    refine ⟨by ring, by ring, ?_, ?_, ?_, ?_⟩ <;> omega
  · cases h

/-- "Rendering never panics" for the layer computation: for every device-space box, with or
    without filters, the layer rectangle is computed without overflow or `unwrap` failure.
    (Before fix 4d447f2 this was false: `ceil() as u32 + 4` overflowed for a 3·10¹⁰-wide group and
    `to_int_rect().unwrap()` failed for a 3·10⁹-wide filter region — findings/C02/*.svg.) -/
theorem C02_layer_no_panic (x y w h : Rat) (nf : Bool) (mb : IntRect) :
    ∃ r, layerRect x y w h nf mb = .ok r := by
  unfold layerRect
  cases nf
  · simp only [Bool.false_eq_true, if_false]; split <;> exact ⟨_, rfl⟩
  · simp only [if_true]; split <;> exact ⟨_, rfl⟩

/-- The two former crash inputs are now skipped layers. -/
example : layerRect 0 0 30000000000 10 true ⟨-40, -40, 100, 100⟩ = .ok none := by decide +kernel
example : layerRect 0 0 3000000000 10 false ⟨-40, -40, 100, 100⟩ = .ok none := by decide +kernel

/-! non-vacuity: a concrete layer -/
example : layerRect (21/2) (-3) (100) (7/2) true ⟨-40, -40, 100, 100⟩ = .ok (some ⟨8, -5, 52, 8⟩) := by
  decide +kernel

/-! ### feTurbulence: the pseudo-random generator never leaves `i32`

`init` runs `random` a few thousand times on the reduced seed.  Every intermediate of the reduction
and of every `random` step fits the machine type it is computed in, for every `i32` seed an attribute
can produce (fix: `-seed` was formed in `i32`, which `i32::MIN` does not survive). -/

open Resvg.Render in
/-- the seed reduction: intermediates fit (`-seed` in i64 as the code now computes it, the reduced
    value back in i32) and the result is a valid generator state -/
theorem C02_turbulence_seed_init (seed : Int) (h : fitsI32 seed) :
    Generated.seedReducedWide = true ∧ fitsI64 (-seed) ∧
    (seed ≤ 0 → fitsI32 (Int.tmod (-seed) (Generated.randM - 1) + 1)) ∧
    1 ≤ seedInit seed ∧ seedInit seed ≤ Generated.randM - 1 := by
  unfold fitsI32 at h
  refine ⟨by decide, ?_, ?_, ?_, ?_⟩
  · unfold fitsI64; omega
  · intro hs
    have hn : 0 ≤ -seed := by omega
    rw [Int.tmod_eq_emod_of_nonneg hn]
    unfold fitsI32
    simp only [Generated.randM]
    omega
  · unfold seedInit
    simp only [Generated.randM]
    by_cases hs : seed ≤ 0
    · have hn : 0 ≤ -seed := by omega
      simp only [hs, if_true, Int.tmod_eq_emod_of_nonneg hn]
      split <;> omega
    · simp only [hs, if_false]
      split <;> omega
  · unfold seedInit
    simp only [Generated.randM]
    by_cases hs : seed ≤ 0
    · have hn : 0 ≤ -seed := by omega
      simp only [hs, if_true, Int.tmod_eq_emod_of_nonneg hn]
      split <;> omega
    · simp only [hs, if_false]
      split <;> omega

open Resvg.Render in
/-- one `random` step on a state in `[1, RAND_M]`: both products, their difference and the corrected
    value fit `i32`, and the new state is again in `[1, RAND_M]` -/
theorem C02_turbulence_random_step (s : Int) (h1 : 1 ≤ s) (h2 : s ≤ Generated.randM) :
    fitsI32 (Generated.randA * Int.tmod s Generated.randQ) ∧
    fitsI32 (Generated.randR * Int.tdiv s Generated.randQ) ∧
    fitsI32 (Generated.randA * Int.tmod s Generated.randQ - Generated.randR * Int.tdiv s Generated.randQ) ∧
    (Generated.randA * Int.tmod s Generated.randQ - Generated.randR * Int.tdiv s Generated.randQ ≤ 0 →
      fitsI32 (Generated.randA * Int.tmod s Generated.randQ - Generated.randR * Int.tdiv s Generated.randQ + Generated.randM)) ∧
    1 ≤ random s ∧ random s ≤ Generated.randM := by
  have hs : 0 ≤ s := by omega
  unfold random fitsI32
  rw [Int.tmod_eq_emod_of_nonneg hs, Int.tdiv_eq_ediv_of_nonneg hs]
  simp only [Generated.randM, Generated.randA, Generated.randQ, Generated.randR] at *
  refine ⟨?_, ?_, ?_, ?_, ?_, ?_⟩ <;> first | omega | (split <;> omega)

open Resvg.Render in
/-- **every state the generator ever takes is in `[1, RAND_M]`** — for every `i32` seed and any number
    of steps; with the step theorem: no arithmetic overflow anywhere in `init` -/
theorem C02_turbulence_states_in_range (seed : Int) (h : fitsI32 seed) (n : Nat) :
    1 ≤ (random^[n]) (seedInit seed) ∧ (random^[n]) (seedInit seed) ≤ Generated.randM := by
  induction n with
  | zero =>
    have := C02_turbulence_seed_init seed h
    simp only [Function.iterate_zero, id]
    refine ⟨this.2.2.2.1, ?_⟩
    have h5 := this.2.2.2.2
    simp only [Generated.randM] at *
    omega
  | succ k ih =>
    rw [Function.iterate_succ_apply']
    have := C02_turbulence_random_step _ ih.1 ih.2
    exact ⟨this.2.2.2.2.1, this.2.2.2.2.2⟩

open Resvg.Render in
/-- the former reduction formed `-seed` in `i32`: for `seed = i32::MIN` that value does not exist -/
theorem C02_old_seed_negation_overflows : fitsI32 (-2147483648) ∧ ¬ fitsI32 (-(-2147483648)) := by
  unfold fitsI32; omega

end Resvg.Props.C02

/-! ### filter size bookkeeping and pattern tiles -/
namespace Resvg.Props.C02
open Resvg.Render

theorem inSize_region (region : Sz) (acc : List Sz) (h : ∀ s ∈ acc, s = region) (i : FIn) :
    inSize region acc i = region := by
  cases i with
  | source => rfl
  | ref j =>
    unfold inSize
    rcases Resvg.Lemmas.getD_mem_or_default acc j region with hm | hd
    · exact h _ hm
    · exact hd

/-- **No size assertion can fire** (since fix fa8179e): for every region, every layer size, every primitive
    list and wiring the size book completes, and every image handed to a kernel that asserts equal sizes
    has the region's size. -/
theorem C02_sizes_agree (region src : Sz) (ps : List FPrim) (acc : List Sz) :
    (∃ out, sizeBook region src ps acc = .ok out) ∧
    ∀ p ∈ ps, ∀ results, ∀ s ∈ kernelInputSizes region src results p, s = region := by
  constructor
  · induction ps generalizing acc with
    | nil => exact ⟨acc, rfl⟩
    | cons p ps ih =>
      unfold sizeBook
      cases p <;> simp only [primSize] <;> exact ih _
  · intro p _ results s hs
    unfold kernelInputSizes at hs
    split at hs <;> simp at hs <;> (first | exact hs | (rcases hs with h | h <;> exact h))

/-- the repair changes nothing where the old code did not panic: a size book the old code completed is
    the size book of the new code -/
theorem C02_fix_conservative (region src : Sz) (ps : List FPrim) (acc out : List Sz)
    (h : sizeBookOld region src ps acc = .ok out) : sizeBook region src ps acc = .ok out := by
  induction ps generalizing acc with
  | nil => simpa [sizeBookOld, sizeBook] using h
  | cons p ps ih =>
    unfold sizeBookOld at h
    unfold sizeBook
    cases hp : primSizeOld region src acc p with
    | error e => rw [hp] at h; cases h
    | ok s =>
      rw [hp] at h
      have hq : primSize region src acc p = .ok s := by
        cases p <;> simp only [primSizeOld, primSize] at hp ⊢ <;> (try exact hp)
        all_goals (split_ifs at hp <;> first | exact hp | cases hp)
      rw [hq]
      exact ih _ h

/-- Before the fix, when the layer had exactly the size of the filter region every intermediate image had
    that size and no assertion fired — for every primitive list and wiring. -/
theorem C02_old_sizes_agree_partial (region : Sz) (ps : List FPrim) (acc : List Sz)
    (hacc : ∀ s ∈ acc, s = region) :
    ∃ out, sizeBookOld region region ps acc = .ok out ∧ ∀ s ∈ out, s = region := by
  induction ps generalizing acc with
  | nil => exact ⟨acc, rfl, hacc⟩
  | cons p ps ih =>
    have hp : primSizeOld region region acc p = .ok region := by
      cases p <;> simp [primSizeOld, inSize_region region acc hacc]
    unfold sizeBookOld
    rw [hp]
    apply ih
    intro s hs
    rcases List.mem_append.mp hs with h | h
    · exact hacc s h
    · simpa using h

/-- Before the fix the full statement was false: a region that was clamped by `fit_to_rect` (layer 100×100,
    region 300×300) with feFlood + arithmetic feComposite(SourceGraphic, flood) fired the assertion.
    Replay: findings/C02/clamped-arithmetic.svg -/
theorem C02_old_sizes_agree_false :
    sizeBookOld (300, 300) (100, 100) [.flood, .composite true .source (.ref 0)] []
      = .error "crates/resvg/src/filter/composite.rs:assertion_failed:_src#.width_==_src#.width_&&_src#.width_==_dest.width" ∧
    sizeBook (300, 300) (100, 100) [.flood, .composite true .source (.ref 0)] [] = .ok [(300, 300), (300, 300)] := by
  constructor <;> decide +kernel

/-- Pattern tiles: "bounded by a multiple of the canvas" is false — the tile size does not depend
    on the canvas at all (100000×100000 user-space pattern → 4·10¹⁰ bytes). -/
def C02_tile_bounded_stmt : Prop :=
  ∀ (W H : Nat) (wsx hsy : Rat) (t : Sz), patternTile wsx hsy = some t → t.1 ≤ 5 * W ∧ t.2 ≤ 5 * H

theorem C02_tile_bounded_false : ¬ C02_tile_bounded_stmt := by
  intro h
  have := h 20 20 100000 100000 (100000, 100000) (by decide +kernel)
  omega

/-- Partial: a tile whose scaled rectangle fits the maximum box is bounded by it. -/
theorem C02_tile_bounded_partial (W H : Nat) (wsx hsy : Rat) (t : Sz)
    (hw : wsx ≤ 5 * W) (hh : hsy ≤ 5 * H) (ht : patternTile wsx hsy = some t) :
    t.1 ≤ 5 * W ∧ t.2 ≤ 5 * H := by
  unfold patternTile at ht
  simp only at ht
  have fw : (wsx + 1 / 2).floor ≤ 5 * W := by
    have : (wsx + 1 / 2).floor < 5 * (W : Int) + 1 := by
      apply Rat.floor_lt_iff.mpr; push_cast; linarith
    omega
  have fh : (hsy + 1 / 2).floor ≤ 5 * H := by
    have : (hsy + 1 / 2).floor < 5 * (H : Int) + 1 := by
      apply Rat.floor_lt_iff.mpr; push_cast; linarith
    omega
  split_ifs at ht <;> (injection ht with ht; subst ht; simp only; omega)

/-! ### feTurbulence: the octave loop -/

/-- `convert_turbulence`: negative → 0, then the limit, then `round() as u32` -/
def storedOctaves (n : Rat) : Nat :=
  let c := if n < 0 then 0 else if n > Generated.maxOctaves then (Generated.maxOctaves : Rat) else n
  ((c + 1 / 2).floor).toNat

/-- **the per-pixel octave loop is bounded** (fix f88b122): whatever `numOctaves` says, the tree holds at
    most `MAX_OCTAVES` of them, so a pixel costs at most `4 · 255` noise evaluations -/
theorem C02_octaves_bounded (n : Rat) :
    Generated.octavesClamped = true ∧ storedOctaves n ≤ Generated.maxOctaves ∧ Generated.maxOctaves = 255 := by
  refine ⟨by decide, ?_, by decide⟩
  have hm : Generated.maxOctaves = 255 := by decide
  have key : ∀ c : Rat, c ≤ 255 → ((c + 1 / 2).floor).toNat ≤ 255 := by
    intro c hc
    have hf : (c + 1 / 2).floor ≤ 255 := by
      rw [Lemmas.rat_floor_eq]
      have : ⌊c + 1 / 2⌋ < 255 + 1 := by
        apply Int.floor_lt.mpr
        push_cast
        linarith
      omega
    omega
  unfold storedOctaves
  simp only [hm]
  split_ifs with h1 h2
  · exact key 0 (by norm_num)
  · exact key _ (by norm_num)
  · exact key n (by push_neg at h2; exact_mod_cast h2)

example : storedOctaves 2147483648 = 255 ∧ storedOctaves (-1) = 0 ∧ storedOctaves 5 = 5 := by decide +kernel

/-! ### feTurbulence: the noise stays bounded for any number of octaves

The lattice coordinate doubles per octave.  `noise2` takes its fractional part as `t - trunc t`
(fix: `t - (t as i64)` is no fraction once `t` exceeds 2^63, at about 60 octaves; the interpolation then
produced infinities and NaN, and `f32_bound` asserted).  With a true fraction the cell interpolation is
bounded by a constant, the octave sum by twice that, so the value handed to `f32_bound` is finite for
every document. -/

/-- `t - t.trunc()` -/
def fracTrunc (t : Rat) : Rat := t - (if 0 ≤ t then (⌊t⌋ : Rat) else (⌈t⌉ : Rat))

theorem fracTrunc_abs_lt_one (t : Rat) : |fracTrunc t| < 1 := by
  unfold fracTrunc
  split_ifs with h
  · have h1 := Int.floor_le t
    have h2 := Int.lt_floor_add_one t
    rw [abs_lt]; constructor <;> linarith
  · have h1 := Int.le_ceil t
    have h2 := Int.ceil_lt_add_one t
    rw [abs_lt]; constructor <;> linarith

theorem abs_lerp_le (t a b : Rat) : |Render.lerp t a b| ≤ |a| + |t| * (|a| + |b|) := by
  unfold Render.lerp
  calc |a + t * (b - a)| ≤ |a| + |t * (b - a)| := abs_add_le _ _
    _ = |a| + |t| * |b - a| := by rw [abs_mul]
    _ ≤ |a| + |t| * (|a| + |b|) := by
        have : |b - a| ≤ |a| + |b| := by
          calc |b - a| ≤ |b| + |a| := abs_sub _ _
            _ = |a| + |b| := add_comm _ _
        nlinarith [abs_nonneg t]

theorem abs_sCurve_le (t : Rat) (h : |t| < 1) : |Render.sCurve t| ≤ 5 := by
  unfold Render.sCurve
  have h0 := abs_nonneg t
  have h1 : |t * t| ≤ 1 := by rw [abs_mul]; nlinarith
  have h2 : |3 - 2 * t| ≤ 5 := by
    rw [abs_le]; rw [abs_lt] at h; constructor <;> linarith
  calc |t * t * (3 - 2 * t)| = |t * t| * |3 - 2 * t| := abs_mul _ _
    _ ≤ 1 * 5 := by nlinarith [abs_nonneg (t * t), abs_nonneg (3 - 2 * t)]
    _ = 5 := by norm_num

theorem abs_dot_le (r s qx qy R S : Rat) (hr : |r| ≤ R) (hs : |s| ≤ S) (hx : |qx| ≤ 1) (hy : |qy| ≤ 1) :
    |r * qx + s * qy| ≤ R + S := by
  have hR : 0 ≤ R := le_trans (abs_nonneg r) hr
  have hS : 0 ≤ S := le_trans (abs_nonneg s) hs
  calc |r * qx + s * qy| ≤ |r * qx| + |s * qy| := abs_add_le _ _
    _ = |r| * |qx| + |s| * |qy| := by rw [abs_mul, abs_mul]
    _ ≤ R * 1 + S * 1 := by nlinarith [abs_nonneg r, abs_nonneg s, abs_nonneg qx, abs_nonneg qy]
    _ = R + S := by ring

/-- **one lattice cell is bounded by a constant**, whatever the coordinates, when the fractions are
    fractions and the gradients are unit vectors (each component at most 1 in size) -/
theorem C02_noise_cell_bounded (rx0 ry0 q00x q00y q10x q10y q01x q01y q11x q11y : Rat)
    (hx : |rx0| < 1) (hy : |ry0| < 1)
    (g1 : |q00x| ≤ 1) (g2 : |q00y| ≤ 1) (g3 : |q10x| ≤ 1) (g4 : |q10y| ≤ 1)
    (g5 : |q01x| ≤ 1) (g6 : |q01y| ≤ 1) (g7 : |q11x| ≤ 1) (g8 : |q11y| ≤ 1) :
    |Render.noiseCell rx0 ry0 q00x q00y q10x q10y q01x q01y q11x q11y| ≤ 2000 := by
  unfold Render.noiseCell
  simp only
  have hx1 : |rx0 - 1| ≤ 2 := by rw [abs_le]; rw [abs_lt] at hx; constructor <;> linarith
  have hy1 : |ry0 - 1| ≤ 2 := by rw [abs_le]; rw [abs_lt] at hy; constructor <;> linarith
  have hsx := abs_sCurve_le rx0 hx
  have hsy := abs_sCurve_le ry0 hy
  have u1 := abs_dot_le rx0 ry0 q00x q00y 1 1 hx.le hy.le g1 g2
  have v1 := abs_dot_le (rx0 - 1) ry0 q10x q10y 2 1 hx1 hy.le g3 g4
  have u2 := abs_dot_le rx0 (ry0 - 1) q01x q01y 1 2 hx.le hy1 g5 g6
  have v2 := abs_dot_le (rx0 - 1) (ry0 - 1) q11x q11y 2 2 hx1 hy1 g7 g8
  have ha := abs_lerp_le (Render.sCurve rx0) (rx0 * q00x + ry0 * q00y) ((rx0 - 1) * q10x + ry0 * q10y)
  have hb := abs_lerp_le (Render.sCurve rx0) (rx0 * q01x + (ry0 - 1) * q01y) ((rx0 - 1) * q11x + (ry0 - 1) * q11y)
  have hA : |Render.lerp (Render.sCurve rx0) (rx0 * q00x + ry0 * q00y) ((rx0 - 1) * q10x + ry0 * q10y)| ≤ 27 := by
    nlinarith [abs_nonneg (Render.sCurve rx0), abs_nonneg (rx0 * q00x + ry0 * q00y), abs_nonneg ((rx0 - 1) * q10x + ry0 * q10y)]
  have hB : |Render.lerp (Render.sCurve rx0) (rx0 * q01x + (ry0 - 1) * q01y) ((rx0 - 1) * q11x + (ry0 - 1) * q11y)| ≤ 38 := by
    nlinarith [abs_nonneg (Render.sCurve rx0), abs_nonneg (rx0 * q01x + (ry0 - 1) * q01y), abs_nonneg ((rx0 - 1) * q11x + (ry0 - 1) * q11y)]
  have hc := abs_lerp_le (Render.sCurve ry0)
    (Render.lerp (Render.sCurve rx0) (rx0 * q00x + ry0 * q00y) ((rx0 - 1) * q10x + ry0 * q10y))
    (Render.lerp (Render.sCurve rx0) (rx0 * q01x + (ry0 - 1) * q01y) ((rx0 - 1) * q11x + (ry0 - 1) * q11y))
  refine le_trans hc ?_
  nlinarith [abs_nonneg (Render.sCurve ry0),
    abs_nonneg (Render.lerp (Render.sCurve rx0) (rx0 * q00x + ry0 * q00y) ((rx0 - 1) * q10x + ry0 * q10y)),
    abs_nonneg (Render.lerp (Render.sCurve rx0) (rx0 * q01x + (ry0 - 1) * q01y) ((rx0 - 1) * q11x + (ry0 - 1) * q11y))]

/-- **the octave sum is bounded for any number of octaves** (255 after the cap, but the bound does not
    depend on it): `|Σ_{k<n} noise_k / 2^k| ≤ 2 B − B / 2^(n−1)`, in particular `≤ 2 B` -/
theorem C02_octave_sum_bounded (noise : Nat → Rat) (B : Rat) (hB : 0 ≤ B) (hn : ∀ k, |noise k| ≤ B) (n : Nat) :
    |Render.octaveSum noise n| ≤ 2 * B - 2 * B / 2 ^ n := by
  induction n with
  | zero => simp [Render.octaveSum]
  | succ k ih =>
    unfold Render.octaveSum
    have hp : (0 : Rat) < 2 ^ k := by positivity
    have h1 : |noise k / 2 ^ k| ≤ B / 2 ^ k := by
      rw [abs_div, abs_of_pos hp]
      exact div_le_div_of_nonneg_right (hn k) hp.le
    have h2 : (2 : Rat) ^ (k + 1) = 2 * 2 ^ k := by ring
    calc |Render.octaveSum noise k + noise k / 2 ^ k|
        ≤ |Render.octaveSum noise k| + |noise k / 2 ^ k| := abs_add_le _ _
      _ ≤ (2 * B - 2 * B / 2 ^ k) + B / 2 ^ k := by linarith
      _ = 2 * B - 2 * B / 2 ^ (k + 1) := by rw [h2]; field_simp; ring

/-- **the value handed to `f32_bound` is finite**: with the sources' fraction and guarded normalisation
    (both checked by the translator) every lattice cell of every octave is within the constant, and so is
    `255 * sum` for any octave count -/
theorem C02_turbulence_value_bounded (noise : Nat → Rat) (hn : ∀ k, |noise k| ≤ 2000) (n : Nat) :
    Generated.noiseFractionIsTrunc = true ∧ Generated.gradientZeroGuard = true ∧
    |Render.octaveSum noise n| ≤ 4000 := by
  refine ⟨by decide, by decide, ?_⟩
  have h := C02_octave_sum_bounded noise 2000 (by norm_num) hn n
  have hp : (0 : Rat) < 2 ^ n := by positivity
  have : (0 : Rat) ≤ 2 * 2000 / 2 ^ n := by positivity
  linarith

/-- the fraction as the code computed it before the fix, for a coordinate beyond the `i64` range:
    `t - 2^63` is not a fraction (here `2^70 - 2^63`), and everything downstream grows with it -/
theorem C02_old_fraction_unbounded :
    let t : Rat := 2 ^ 70
    let sat : Rat := 2 ^ 63 - 1           -- `t as i64` saturates at `i64::MAX`
    1 < |t - sat| ∧ |fracTrunc t| < 1 := by
  refine ⟨?_, fracTrunc_abs_lt_one _⟩
  norm_num

end Resvg.Props.C02
