/-
  crates/usvg/src/parser/svgtree/parse.rs: building the intermediate SVG tree from the XML tree —
  `parse`, `parse_xml_node_children`, `parse_xml_node`, `parse_svg_element` (attribute copy only; the
  CSS / style cascade is Resvg/SvgTree/Cascade.lean), `parse_svg_use_element` (with the expansion
  stack of fix d11e2ad), the two limits (`Generated.depthLimit`, `Generated.nodeLimit`).
  The content of `text` elements is built by svgtree/text.rs `parse_svg_text_element_impl`
  (`buildText`): spans, links, references and text paths become element nodes under the same depth
  and node limits; character data becomes text nodes, which are not elements and are not listed.
-/
import Resvg.SvgTree.Cascade

namespace Resvg.SvgTree

/-- an XML node; `nid` is its pre-order index in the document (node identity) -/
inductive Xml
  | elem (nid : Nat) (svgNs : Bool) (name : String) (attrs : List (String × String × String)) (children : List Xml)
  | other (nid : Nat)        -- text, comment, processing instruction
deriving Repr

/-- XML attribute: (namespace kind, local name, value); namespace kind ∈ "", "svg", "xlink", "xml", "other" -/
abbrev XAttr := String × String × String

/- all nodes of a subtree, pre-order (`descendants()`, including the node itself): `Xml.descendants` -/

def Xml.nid : Xml → Nat
  | .elem n _ _ _ _ => n
  | .other n => n

def Xml.children : Xml → List Xml
  | .elem _ _ _ _ cs => cs
  | .other _ => []

/-- `parse_tag_name`: SVG namespace and a name `EId::from_str` knows -/
def tagName? : Xml → Option String
  | .elem _ true name _ _ => if Generated.elementNames.contains name then some name else none
  | _ => none

mutual
def Xml.descendants : Xml → List Xml
  | .elem n s name a cs => .elem n s name a cs :: descendantsList cs
  | .other n => [.other n]
def descendantsList : List Xml → List Xml
  | [] => []
  | c :: cs => c.descendants ++ descendantsList cs
end

def xattr? (x : Xml) (ns name : String) : Option String :=
  match x with
  | .elem _ _ _ attrs _ => (attrs.find? (fun a => a.1 == ns && a.2.1 == name)).map (·.2.2)
  | .other _ => none

/-- `svgtypes::IRI::from_str`: `#id` (surrounding spaces allowed) -/
def parseIri? (v : String) : Option String :=
  let t := v.trimAscii.toString
  if t.startsWith "#" && t.length > 1 then some (String.ofList (t.toList.drop 1)) else none

/-- `resolve_href`: `xlink:href`, else `href`; looked up in the first-wins id map -/
def resolveHref (idMap : List (String × Xml)) (x : Xml) : Option Xml :=
  match (xattr? x "xlink" "href").orElse (fun _ => xattr? x "" "href") with
  | some v => match parseIri? v with
    | some id => (idMap.find? (fun p => p.1 == id)).map (·.2)
    | none => none
  | none => none

/-- the id map of `parse`: first element with each `id` (no-namespace attribute), document order -/
def buildIdMap (root : Xml) : List (String × Xml) :=
  root.descendants.foldl (fun acc x =>
    match xattr? x "" "id" with
    | some id => if acc.any (fun p => p.1 == id) then acc else acc ++ [(id, x)]
    | none => acc) []

/-- attribute copy of `parse_svg_element` (no `style`, no CSS): namespaces none/svg/xlink/xml, known
    names, `id` dropped under `ignore_ids`, style-only attributes dropped, then `append_attribute` -/
def copyAttrs (tag : String) (ancestors : List (List Attr)) (ignoreIds : Bool) (attrs : List XAttr) : List Attr :=
  attrs.foldl (fun acc a =>
    let ns := a.1; let name := a.2.1; let v := a.2.2
    if ns == "other" then acc
    else if !(isKnownAttr name) then acc
    else if ignoreIds && name == "id" then acc
    else if Generated.styleOnlyAttrs.contains name then acc
    else if name == "image-rendering" && Generated.imageRenderingSkip.contains v then acc
    else (appendAttribute tag ancestors name v false acc).1) []

/-- links are treated as groups (`a` → `g`) -/
def normTag (t : String) : String := if t == "a" then "g" else t

def xmlAttrs : Xml → List XAttr
  | .elem _ _ _ a _ => a
  | .other _ => []

inductive BuildErr | nodesLimit
deriving DecidableEq, Repr

/-- output: pre-order list of (depth, tag, attributes) plus the running node count -/
structure Out where
  nodes : List (Nat × String × List Attr)
  count : Nat          -- `doc.nodes.len()` (root node included)
deriving Repr

structure Ctx where
  idMap : List (String × Xml)

/-- svgtree/text.rs `parse_svg_text_element_impl`: the element children of a `text` element.
    `a` and `tref` become `tspan`; `textPath` is kept only directly under `text`; everything else is
    skipped with its content; a `tref` has no element content; ids are always kept.  The depth check is
    made for every child node, as `parse_xml_node` does (fix: deep span nesting overflowed the stack). -/
def buildText : Nat → Xml → (underText : Bool) → (depth : Nat) → (outDepth : Nat) →
    List (List Attr) → Out → Except BuildErr Out
  | 0, _, _, _, _, _, _ => .error .nodesLimit      -- unreachable: depth check comes first
  | fuel + 1, parent, underText, depth, outDepth, ancestors, out =>
    parent.children.foldl (fun acc c =>
      match acc with
      | .error e => .error e
      | .ok o =>
        if depth > Generated.depthLimit then .error .nodesLimit
        else
          match tagName? c with
          | none => .ok o
          | some tag0 =>
            let tag1 := if tag0 == "a" then "tspan" else tag0
            if !(tag1 == "tspan" || tag1 == "tref" || tag1 == "textPath") then .ok o
            else if tag1 == "textPath" && !underText then .ok o
            else
              let isTref := tag1 == "tref"
              let tag := if isTref then "tspan" else tag1
              let attrs := copyAttrs tag ancestors false (xmlAttrs c)
              if o.count > Generated.nodeLimit then .error .nodesLimit
              else
                let o1 : Out := { nodes := o.nodes ++ [(outDepth, tag, attrs)], count := o.count + 1 }
                if isTref then .ok o1
                else buildText fuel c false (depth + 1) (outDepth + 1) (attrs :: ancestors) o1) (.ok out)

/-- `parse_xml_node` / `parse_xml_node_children` / `parse_svg_use_element`.
    `fuel` is derived from the depth limit (every recursive call increases `depth`), so running out
    of fuel is impossible before the depth check fires (`C01_fuel_suffices`).
    `outDepth` is the depth in the *output* tree; `ancestors` the attribute lists of the output
    ancestors (for `inherit`). -/
def buildNode (ctx : Ctx) : Nat → Xml → (origin : Nat) → (ignoreIds : Bool) → (depth : Nat) → (outDepth : Nat) →
    List (List Attr) → (useStack : List Nat) → Out → Except BuildErr Out
  | 0, _, _, _, _, _, _, _, _ => .error .nodesLimit      -- unreachable: depth check comes first
  | fuel + 1, node, origin, ignoreIds, depth, outDepth, ancestors, useStack, out =>
    if depth > Generated.depthLimit then .error .nodesLimit
    else
      match tagName? node with
      | none => .ok out
      | some tag0 =>
        if tag0 == "style" then .ok out
        else
          let tag := normTag tag0
          let attrs := copyAttrs tag ancestors ignoreIds (xmlAttrs node)
          if out.count > Generated.nodeLimit then .error .nodesLimit
          else
            let out1 : Out := { nodes := out.nodes ++ [(outDepth, tag, attrs)], count := out.count + 1 }
            let anc' := attrs :: ancestors
            if tag == "text" then buildText fuel node true (depth + 1) (outDepth + 1) anc' out1
            else if tag == "use" then
              -- parse_svg_use_element(node, origin, node_id, depth + 1)
              match resolveHref ctx.idMap node with
              | none => .ok out1
              | some link =>
                if link.nid == node.nid || link.nid == origin then .ok out1
                else if (tagName? link).isNone then .ok out1
                else if useStack.contains link.nid then .ok out1
                else
                  let isRecursive := (link.descendants.drop 1).any (fun d =>
                    match d with
                    | .elem _ true "use" _ _ =>
                      match resolveHref ctx.idMap d with
                      | some l2 => l2.nid == node.nid || l2.nid == link.nid
                      | none => false
                    | _ => false)
                  if isRecursive then .ok out1
                  else buildNode ctx fuel link node.nid true (depth + 2) (outDepth + 1) anc' (link.nid :: useStack) out1
            else
              node.children.foldl (fun acc c =>
                match acc with
                | .error e => .error e
                | .ok o => buildNode ctx fuel c origin ignoreIds (depth + 1) (outDepth + 1) anc' useStack o) (.ok out1)

/-- `parse`: children of the XML root at depth 0; the Root node is node number 1 -/
def build (doc : Xml) : Except BuildErr Out :=
  let ctx : Ctx := ⟨buildIdMap doc⟩
  -- xml.root() has the root element as its child; origin = the XML root (nid outside the element range)
  buildNode ctx (Generated.depthLimit + 3) doc (doc.nid + 1000000000) false 0 1 [] [] { nodes := [], count := 1 }

end Resvg.SvgTree
