/-
  crates/usvg/src/parser/svgtree/mod.rs `HrefIter` (after fix ae7a68b: a list of visited elements)
  on a functional graph `href : node → Option node`.
-/
namespace Resvg.SvgTree

structure HrefIter where
  origin : Nat
  curr : Nat
  visited : List Nat
  isFirst : Bool
  isFinished : Bool
deriving Repr

def HrefIter.start (n : Nat) : HrefIter := ⟨n, n, [], true, false⟩

/-- `HrefIter::next`: (new state, yielded element) -/
def HrefIter.next (href : Nat → Option Nat) (s : HrefIter) : HrefIter × Option Nat :=
  if s.isFinished then (s, none)
  else if s.isFirst then ({ s with isFirst := false }, some s.curr)
  else
    match href s.curr with
    | some link =>
      if link = s.curr ∨ link = s.origin ∨ link ∈ s.visited then
        ({ s with isFinished := true }, none)
      else
        ({ s with visited := s.visited ++ [s.curr], curr := link }, some link)
    | none => (s, none)

/-- what a `for n in node.href_iter()` loop sees: the elements yielded until the first `None`
    (at most `fuel` calls) -/
def HrefIter.collect (href : Nat → Option Nat) : Nat → HrefIter → List Nat
  | 0, _ => []
  | fuel + 1, s =>
    match HrefIter.next href s with
    | (s', some x) => x :: HrefIter.collect href fuel s'
    | (_, none) => []

/-- the iterator *before* the fix: only self / origin are compared (kept for the witness) -/
def HrefIter.nextOld (href : Nat → Option Nat) (s : HrefIter) : HrefIter × Option Nat :=
  if s.isFinished then (s, none)
  else if s.isFirst then ({ s with isFirst := false }, some s.curr)
  else
    match href s.curr with
    | some link =>
      if link = s.curr ∨ link = s.origin then ({ s with isFinished := true }, none)
      else ({ s with curr := link }, some link)
    | none => (s, none)

def HrefIter.collectOld (href : Nat → Option Nat) : Nat → HrefIter → List Nat
  | 0, _ => []
  | fuel + 1, s =>
    match HrefIter.nextOld href s with
    | (s', some x) => x :: HrefIter.collectOld href fuel s'
    | (_, none) => []

end Resvg.SvgTree
