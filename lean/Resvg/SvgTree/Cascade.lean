/-
  crates/usvg/src/parser/svgtree/parse.rs: how the attribute list of one element is built —
  `append_attribute`, `resolve_inherit`, the `insert_attribute` and `write_declaration` closures of
  `parse_svg_element` — and crates/usvg/src/parser/svgtree/mod.rs `find_attribute`.
  Attribute and element names are the SVG strings (`AId::to_str`); the classification tables are
  regenerated from the sources (`Resvg.Generated`).
-/
import Resvg.Generated.Names
import Resvg.Generated.AttrClass

namespace Resvg.SvgTree
open Resvg

structure Attr where
  name : String
  value : String
  important : Bool
deriving DecidableEq, Repr

def isKnownAttr (n : String) : Bool := Generated.attributeNames.contains n
def isPresentation (n : String) : Bool := Generated.presentationAttrs.contains n
def isInheritable (n : String) : Bool := isPresentation n && !Generated.nonInheritableAttrs.contains n
def allowsInherit (n : String) : Bool := Generated.allowsInheritValue.contains n

/-- first attribute with the given name (`attributes().iter().find(|a| a.name == aid)`) -/
def findAttr (attrs : List Attr) (n : String) : Option Attr := attrs.find? (fun a => a.name == n)
def hasAttr (attrs : List Attr) (n : String) : Bool := attrs.any (fun a => a.name == n)

def lookupDefault (n : String) : Option String :=
  (Generated.inheritDefaults.find? (fun p => p.1 == n)).map (·.2)

/-- `resolve_inherit(parent_id, aid, doc)`; `ancestors` are the attribute lists of the parent, the
    grandparent, … (nearest first).  Returns the attribute that is pushed, if any. -/
def resolveInherit (ancestors : List (List Attr)) (n : String) : Option Attr :=
  let fromAncestor : Option Attr :=
    if isInheritable n then
      -- any ancestor that has the attribute
      match ancestors.find? (fun as => hasAttr as n) with
      | some as => findAttr as n
      | none => none
    else
      -- only the direct parent
      match ancestors with
      | p :: _ => findAttr p n
      | [] => none
  match fromAncestor with
  | some a => some ⟨n, a.value, a.important⟩
  | none =>
    match lookupDefault n with
    | some v => some ⟨n, v, false⟩
    | none => none

/-- `append_attribute(parent_id, tag_name, aid, value, important, doc)` → (new list, added) -/
def appendAttribute (tag : String) (ancestors : List (List Attr)) (n v : String) (imp : Bool)
    (attrs : List Attr) : List Attr × Bool :=
  if n == "style" || n == "class" then (attrs, false)
  else if tag == "tspan" && n == "href" then (attrs, false)
  else if allowsInherit n && v == "inherit" then
    match resolveInherit ancestors n with
    | some a => (attrs ++ [a], true)
    | none => (attrs, false)
  else (attrs ++ [⟨n, v, imp⟩], true)

/-- `Vec::swap(i, j)` -/
def swapAt (l : List Attr) (i j : Nat) : List Attr :=
  match l[i]?, l[j]? with
  | some a, some b => (l.set i b).set j a
  | _, _ => l

/-- the `insert_attribute` closure: position of an existing entry is computed *before* the append;
    if the append happened and an entry existed: swap unless the existing one is important, then pop. -/
def insertAttribute (tag : String) (ancestors : List (List Attr)) (n v : String) (imp : Bool)
    (attrs : List Attr) : List Attr :=
  let idx := attrs.findIdx? (fun a => a.name == n)
  let (attrs', added) := appendAttribute tag ancestors n v imp attrs
  if added then
    match idx with
    | some i =>
      let last := attrs'.length - 1
      let hasPrecedence := match attrs'[i]? with
        | some e => !e.important
        | none => false
      (if hasPrecedence then swapAt attrs' i last else attrs').dropLast
    | none => attrs'
  else attrs'

/-- the `write_declaration` closure for every declaration except the `font` shorthand (whose
    expansion needs svgtypes' shorthand parser): list of `insert_attribute` calls it makes -/
def expandDeclaration (name v : String) (imp : Bool) : List (String × String × Bool) :=
  if name == "marker" then [("marker-start", v, imp), ("marker-mid", v, imp), ("marker-end", v, imp)]
  else if isKnownAttr name && isPresentation name then [(name, v, imp)]
  else []

/-- all of `parse_svg_element`'s attribute handling: XML attributes copied in order, then the
    `insert_attribute` calls of CSS rules and of the `style` attribute in order -/
def cascadeElement (tag : String) (ancestors : List (List Attr)) (xml : List (String × String))
    (decls : List (String × String × Bool)) : List Attr :=
  let copied := xml.foldl (fun acc (p : String × String) => (appendAttribute tag ancestors p.1 p.2 false acc).1) []
  decls.foldl (fun acc (d : String × String × Bool) => insertAttribute tag ancestors d.1 d.2.1 d.2.2 acc) copied

/-- `SvgNode::find_attribute_impl`: `chain` = attribute lists of the node itself, its parent, … -/
def findAttribute (chain : List (List Attr)) (n : String) : Option Attr :=
  if isInheritable n then
    match chain.find? (fun as => hasAttr as n) with
    | some as => findAttr as n
    | none => none
  else
    match chain with
    | self :: rest =>
      if hasAttr self n then findAttr self n
      else match rest with
        | p :: _ => findAttr p n
        | [] => none
    | [] => none

end Resvg.SvgTree
