/-
  crates/resvg/src/main.rs `FitTo` (+ the option mapping of `parse_args`) and the tiny-skia-path
  `IntSize` scaling functions it uses: the size of the PNG the command writes.
  `r` is the f32 rounding (F32.rnd in the driver, `id` in exact statements).
-/
import Resvg.Num.F32
import Resvg.Writer.Num
namespace Resvg.Cli
open Resvg Resvg.Writer

/-- `f32::ceil` as an integer -/
def ceilI (q : Rat) : Int := -((-q).floor)

/-- `as u32` of a float: saturating at 0 below -/
def asU32 (i : Int) : Nat := i.toNat

/-- `IntSize::from_wh` -/
def intSize (w h : Nat) : Option (Nat × Nat) := if w = 0 ∨ h = 0 then none else some (w, h)

/-- `Size::to_int_size`: `max(1, round)` on both sides -/
def toIntSize (w h : Rat) : Nat × Nat :=
  (max 1 (asU32 (roundHalfAway w)), max 1 (asU32 (roundHalfAway h)))

def scaleBy (r : Rat → Rat) (s : Nat × Nat) (z : Rat) : Option (Nat × Nat) :=
  intSize (asU32 (roundHalfAway (r ((s.1 : Rat) * z)))) (asU32 (roundHalfAway (r ((s.2 : Rat) * z))))

def scaleToWidth (r : Rat → Rat) (s : Nat × Nat) (nw : Nat) : Option (Nat × Nat) :=
  intSize nw (asU32 (ceilI (r (r ((nw : Rat) * s.2) / s.1))))

def scaleToHeight (r : Rat → Rat) (s : Nat × Nat) (nh : Nat) : Option (Nat × Nat) :=
  intSize (asU32 (ceilI (r (r ((nh : Rat) * s.1) / s.2)))) nh

/-- `size_scale(s1, s2, expand = false)` -/
def scaleTo (r : Rat → Rat) (s1 s2 : Nat × Nat) : Nat × Nat :=
  let rw := asU32 (ceilI (r (r ((s2.2 : Rat) * s1.1) / s1.2)))
  if rw ≥ s2.1 then (s2.1, asU32 (ceilI (r (r ((s2.1 : Rat) * s1.2) / s1.1)))) else (rw, s2.2)

inductive FitTo where
  | original
  | width (w : Nat)
  | height (h : Nat)
  | size (w h : Nat)
  | zoom (z : Rat)

/-- `parse_args`: -w and -h together, else -w, else -h, else -z -/
def fitToOf (w h : Option Nat) (z : Option Rat) : FitTo :=
  match w, h, z with
  | some w, some h, _ => .size w h
  | some w, none, _ => .width w
  | none, some h, _ => .height h
  | none, none, some z => .zoom z
  | none, none, none => .original

/-- `FitTo::fit_to_size` -/
def fitToSize (r : Rat → Rat) (f : FitTo) (s : Nat × Nat) : Option (Nat × Nat) :=
  match f with
  | .original => some s
  | .width w => scaleToWidth r s w
  | .height h => scaleToHeight r s h
  | .size w h => (intSize w h).map (fun t => scaleTo r s t)
  | .zoom z => scaleBy r s z

/-- `FitTo::fit_to_transform`: the two scale factors (identity when the size is refused) -/
def fitToScale (r : Rat → Rat) (f : FitTo) (s : Nat × Nat) : Rat × Rat :=
  match fitToSize r f s with
  | some o => (r ((o.1 : Rat) / s.1), r ((o.2 : Rat) / s.2))
  | none => (1, 1)

/-- `as i32` of a float: truncation toward zero -/
def truncI (q : Rat) : Int := if 0 ≤ q then q.floor else -((-q).floor)

/-- what `render_svg` does with `--export-id`: the size of the written image, the scale the object is
    rendered with, and where the object's box `(bx, by, bw, bh)` (its absolute layer box) is placed -/
structure ExportPlan where
  canvas : Nat × Nat
  scale : Rat × Rat
  /-- where the origin of the object's box lands in the image (exact: since fix b316a01 the object is rendered
      in place; before, a separately rendered image was pasted at this position truncated to whole pixels) -/
  offset : Rat × Rat
  deriving DecidableEq, Repr

/-- `render_svg`, export branch: the size options apply to the exported area — the object, or the page
    with `--export-area-page`; the object is placed at its box in output pixels -/
def exportPlan (r : Rat → Rat) (f : FitTo) (page : Nat × Nat) (bx by_ bw bh : Rat) (areaPage : Bool) :
    Option ExportPlan :=
  let area := if areaPage then page else toIntSize bw bh
  match fitToSize r f area with
  | none => none
  | some size =>
    let sc := fitToScale r f area
    some { canvas := size, scale := sc,
           offset := if areaPage then (r (bx * sc.1), r (by_ * sc.2)) else (0, 0) }

/-- the export branch before fix 082ba5b: the canvas is fitted to the object, the scale to the page, and
    with `--export-area-page` the object is placed at its *unscaled* offset -/
def exportPlanOld (r : Rat → Rat) (f : FitTo) (page : Nat × Nat) (bx by_ bw bh : Rat) (areaPage : Bool) :
    Option ExportPlan :=
  match fitToSize r f (toIntSize bw bh) with
  | none => none
  | some nodeSize =>
    let sc := fitToScale r f page
    if areaPage then
      match fitToSize r f page with
      | none => none
      | some size => some { canvas := size, scale := sc, offset := ((truncI bx : Int), (truncI by_ : Int)) }
    else some { canvas := nodeSize, scale := sc, offset := (0, 0) }

/-- the pixel box the object's box touches in the written image: `offset + [0, bw·sx] × [0, bh·sy]`, rounded
    outwards -/
def ExportPlan.painted (p : ExportPlan) (bw bh : Rat) : Int × Int × Int × Int :=
  (p.offset.1.floor, p.offset.2.floor, ceilI (p.offset.1 + bw * p.scale.1), ceilI (p.offset.2 + bh * p.scale.2))

end Resvg.Cli
