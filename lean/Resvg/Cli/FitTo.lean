/-
  crates/resvg/src/main.rs `FitTo` (+ the option mapping of `parse_args`) and the tiny-skia-path
  `IntSize` scaling functions it uses: the size of the PNG the command writes.
  `r` is the f32 rounding (F32.rnd in the driver, `id` in exact statements).
-/
import Resvg.Num.F32
import Resvg.Writer.Num
namespace Resvg.Cli
open Resvg Resvg.Writer

/-- `f32::ceil` as an integer -/
def ceilI (q : Rat) : Int := -((-q).floor)

/-- `as u32` of a float: saturating at 0 below -/
def asU32 (i : Int) : Nat := i.toNat

/-- `IntSize::from_wh` -/
def intSize (w h : Nat) : Option (Nat × Nat) := if w = 0 ∨ h = 0 then none else some (w, h)

/-- `Size::to_int_size`: `max(1, round)` on both sides -/
def toIntSize (w h : Rat) : Nat × Nat :=
  (max 1 (asU32 (roundHalfAway w)), max 1 (asU32 (roundHalfAway h)))

def scaleBy (r : Rat → Rat) (s : Nat × Nat) (z : Rat) : Option (Nat × Nat) :=
  intSize (asU32 (roundHalfAway (r ((s.1 : Rat) * z)))) (asU32 (roundHalfAway (r ((s.2 : Rat) * z))))

def scaleToWidth (r : Rat → Rat) (s : Nat × Nat) (nw : Nat) : Option (Nat × Nat) :=
  intSize nw (asU32 (ceilI (r (r ((nw : Rat) * s.2) / s.1))))

def scaleToHeight (r : Rat → Rat) (s : Nat × Nat) (nh : Nat) : Option (Nat × Nat) :=
  intSize (asU32 (ceilI (r (r ((nh : Rat) * s.1) / s.2)))) nh

/-- `size_scale(s1, s2, expand = false)` -/
def scaleTo (r : Rat → Rat) (s1 s2 : Nat × Nat) : Nat × Nat :=
  let rw := asU32 (ceilI (r (r ((s2.2 : Rat) * s1.1) / s1.2)))
  if rw ≥ s2.1 then (s2.1, asU32 (ceilI (r (r ((s2.1 : Rat) * s1.2) / s1.1)))) else (rw, s2.2)

inductive FitTo where
  | original
  | width (w : Nat)
  | height (h : Nat)
  | size (w h : Nat)
  | zoom (z : Rat)

/-- `parse_args`: -w and -h together, else -w, else -h, else -z -/
def fitToOf (w h : Option Nat) (z : Option Rat) : FitTo :=
  match w, h, z with
  | some w, some h, _ => .size w h
  | some w, none, _ => .width w
  | none, some h, _ => .height h
  | none, none, some z => .zoom z
  | none, none, none => .original

/-- `FitTo::fit_to_size` -/
def fitToSize (r : Rat → Rat) (f : FitTo) (s : Nat × Nat) : Option (Nat × Nat) :=
  match f with
  | .original => some s
  | .width w => scaleToWidth r s w
  | .height h => scaleToHeight r s h
  | .size w h => (intSize w h).map (fun t => scaleTo r s t)
  | .zoom z => scaleBy r s z

end Resvg.Cli
