/-
  crates/resvg/src/filter/mod.rs `transform_light_source` (x/y parts; the z scale depends only on
  sx, sy and is unaffected by translation) and the layer-local transform of `render_group`.
-/
import Resvg.Geom.Transform
namespace Resvg.Render
open Resvg Resvg.Geom

inductive LightKind | point | spot
deriving DecidableEq, Repr

/-- new (x, y) of a light position `p` (also of `points_at` for spot lights):
    point light: `(ts·p).x − region.x`, `(ts·p).y − region.y`;
    spot light:  the same (since fix 0aa4396; before, the code subtracted `region.x()` from y as well) -/
def transformLightXY {α : Type} [Flt α] (k : LightKind) (ts : Transform α) (regionX regionY : α) (p : α × α) : α × α :=
  let q := ts.mapPoint p
  match k with
  | .point => (Flt.sub q.1 regionX, Flt.sub q.2 regionY)
  | .spot => (Flt.sub q.1 regionX, Flt.sub q.2 regionY)

/-- `transform_light_source` before fix 0aa4396 -/
def transformLightXYOld {α : Type} [Flt α] (k : LightKind) (ts : Transform α) (regionX regionY : α) (p : α × α) : α × α :=
  let q := ts.mapPoint p
  match k with
  | .point => (Flt.sub q.1 regionX, Flt.sub q.2 regionY)
  | .spot => (Flt.sub q.1 regionX, Flt.sub q.2 regionX)

/-- `shift_ts.pre_concat(transform)` with the exact shift `(−ix, −iy)` -/
def localTs {α : Type} [Flt α] (ix iy : α) (ts : Transform α) : Transform α :=
  (Transform.fromTranslate (Flt.neg ix) (Flt.neg iy)).preConcat ts

end Resvg.Render
