/-
  Per-pixel arithmetic of resvg's filters, bit-exact over `Rat` (every f32 operation is followed
  by `F32.rnd`).  Mirrors crates/resvg/src/filter/{mod,composite,component_transfer,color_matrix,
  convolve_matrix}.rs.  LUTs come from `Resvg.Generated.Lut` (regenerated from the source).
-/
import Resvg.Num.F32
import Resvg.Num.FastRnd
import Resvg.Generated.Lut

namespace Resvg.Pixel
open Resvg.F32

/-- Rust `x as u8` on a finite f32 value: truncate toward zero, saturate. -/
def toU8 (q : Rat) : Nat :=
  if q ≤ 0 then 0 else if 255 ≤ q then 255 else q.floor.toNat

/-- `c as f32 / 255.0` -/
def norm (c : Nat) : Rat := rnd ((c : Rat) / 255)

/-- filter/mod.rs `multiply_alpha`, one channel: `(c as f32 * a + 0.5) as u8`, `a = p.a as f32 / 255.0`.
    Every f32 operation is followed by round-to-nearest-even (`FastRnd.rnd`, kernel-friendly form). -/
def mulAlpha (c a : Nat) : Nat :=
  FastRnd.rnd a 255 fun n1 d1 =>                      -- a' = a / 255
  FastRnd.rnd (c * n1) d1 fun n2 d2 =>                -- c * a'
  FastRnd.strict (n2 * 2 + d2) fun n3 => FastRnd.strict (d2 * 2) fun d3 =>
  FastRnd.rnd n3 d3 fun n4 d4 => min 255 (n4 / d4)    -- (… + 0.5) as u8

/-- filter/mod.rs `demultiply_alpha`, one channel: `(c as f32 / a + 0.5) as u8`.
    For `a = 0` the quotient is NaN (`0/0`, cast gives 0) or `+∞` (cast saturates to 255). -/
def demulAlpha (c a : Nat) : Nat :=
  if a = 0 then (if c = 0 then 0 else 255)
  else
  FastRnd.rnd a 255 fun n1 d1 =>
  FastRnd.rnd (c * d1) n1 fun n2 d2 =>                -- c / a'
  FastRnd.strict (n2 * 2 + d2) fun n3 => FastRnd.strict (d2 * 2) fun d3 =>
  FastRnd.rnd n3 d3 fun n4 d4 => min 255 (n4 / d4)

/-- The same two functions through the rational `F32.rnd` (used by the driver's self-check). -/
def mulAlphaRat (c a : Nat) : Nat :=
  toU8 (rnd (rnd ((c : Rat) * norm a) + 1 / 2))
def demulAlphaRat (c a : Nat) : Nat :=
  if a = 0 then (if c = 0 then 0 else 255)
  else toU8 (rnd (rnd ((c : Rat) / norm a) + 1 / 2))

def lutGet (t : List Nat) (i : Nat) : Nat := t.getD i 0

/-- `SRGB_TO_LINEAR_RGB_TABLE[c]` -/
def toLinear (c : Nat) : Nat := lutGet Resvg.Generated.srgbToLinear c
/-- `LINEAR_RGB_TO_SRGB_TABLE[c]` -/
def toSrgb (c : Nat) : Nat := lutGet Resvg.Generated.linearToSrgb c

/-- `PixmapExt::into_linear_rgb`, one colour channel of a premultiplied pixel. -/
def pixIntoLinear (c a : Nat) : Nat := mulAlpha (toLinear (demulAlpha c a)) a
/-- `PixmapExt::into_srgb`, one colour channel of a premultiplied pixel. -/
def pixIntoSrgb (c a : Nat) : Nat := mulAlpha (toSrgb (demulAlpha c a)) a

/-- `f32_bound(min, val, max)` (finite arguments). -/
def bound (lo v hi : Rat) : Rat := if v > hi then hi else if v < lo then lo else v

/-- `from_normalized` / the tail of `transfer`: `(f32_bound(0, c, 1) * 255.0) as u8`. -/
def fromNormalized (r : Rat → Rat) (c : Rat) : Nat := toU8 (r (bound 0 c 1 * 255))

/-- `x.approx_zero_ulps(4)` on a finite f32 value. -/
def approxZero4 (x : Rat) : Bool := x = 0 ∨ (0 < x ∧ x ≤ 4 * pow2 (-149))

/-- composite.rs `arithmetic`'s closure `calc`; `r` is the rounding applied after each f32 operation. -/
def arithCalc (r : Rat → Rat) (k1 k2 k3 k4 : Rat) (i1 i2 : Nat) (mx : Rat) : Rat :=
  let x1 := r ((i1 : Rat) / 255)
  let x2 := r ((i2 : Rat) / 255)
  let res := r (r (r (r (r (k1 * x1) * x2) + r (k2 * x1)) + r (k3 * x2)) + k4)
  bound 0 res mx

structure Px where
  r : Nat
  g : Nat
  b : Nat
  a : Nat
deriving DecidableEq, Repr

/-- One output pixel of composite.rs `arithmetic` (`none` = pixel skipped, destination stays transparent). -/
def arithPixel (r : Rat → Rat) (k1 k2 k3 k4 : Rat) (p q : Px) : Option Px :=
  let a := arithCalc r k1 k2 k3 k4 p.a q.a 1
  if approxZero4 a then none
  else
    some { r := toU8 (r (arithCalc r k1 k2 k3 k4 p.r q.r a * 255)),
           g := toU8 (r (arithCalc r k1 k2 k3 k4 p.g q.g a * 255)),
           b := toU8 (r (arithCalc r k1 k2 k3 k4 p.b q.b a * 255)),
           a := toU8 (r (a * 255)) }

/-- component_transfer.rs `transfer` for `Linear { slope, intercept }`. -/
def transferLinear (r : Rat → Rat) (slope intercept : Rat) (c : Nat) : Nat :=
  fromNormalized r (r (r (slope * r ((c : Rat) / 255)) + intercept))

/-- component_transfer.rs `transfer` for `Discrete(values)` (non-empty). -/
def transferDiscrete (r : Rat → Rat) (values : List Rat) (c : Nat) : Nat :=
  let n := values.length
  let k := (r (r ((c : Rat) / 255) * (n : Rat))).floor.toNat
  fromNormalized r (values.getD (min k (n - 1)) 0)

/-- component_transfer.rs `transfer` for `Table(values)` (non-empty). -/
def transferTable (r : Rat → Rat) (values : List Rat) (c : Nat) : Nat :=
  let n := values.length - 1
  let cf := r ((c : Rat) / 255)
  let k := min (r (cf * (n : Rat))).floor.toNat n
  if k = n then fromNormalized r (values.getD k 0)
  else
    let vk := values.getD k 0
    let vk1 := values.getD (k + 1) 0
    fromNormalized r (r (vk + r (r (r (cf - r ((k : Rat) / (n : Rat))) * (n : Rat)) * r (vk1 - vk))))

/-- color_matrix.rs, `ColorMatrix::Matrix(m)`: one output component from row `m0..m4`. -/
def matrixRow (r : Rat → Rat) (p : Px) (m0 m1 m2 m3 m4 : Rat) : Nat :=
  let R := r ((p.r : Rat) / 255); let G := r ((p.g : Rat) / 255)
  let B := r ((p.b : Rat) / 255); let A := r ((p.a : Rat) / 255)
  fromNormalized r (r (r (r (r (r (R * m0) + r (G * m1)) + r (B * m2)) + r (A * m3)) + m4))

def colorMatrix (r : Rat → Rat) (m : List Rat) (p : Px) : Px :=
  let g := fun i => m.getD i 0
  { r := matrixRow r p (g 0) (g 1) (g 2) (g 3) (g 4),
    g := matrixRow r p (g 5) (g 6) (g 7) (g 8) (g 9),
    b := matrixRow r p (g 10) (g 11) (g 12) (g 13) (g 14),
    a := matrixRow r p (g 15) (g 16) (g 17) (g 18) (g 19) }

/-- The wrapper `apply_color_matrix` / `apply_component_transfer` on one premultiplied pixel
    (colour space already converted): demultiply, per-channel function, multiply. -/
def demulPx (p : Px) : Px := { r := demulAlpha p.r p.a, g := demulAlpha p.g p.a, b := demulAlpha p.b p.a, a := p.a }
def mulPx (p : Px) : Px := { r := mulAlpha p.r p.a, g := mulAlpha p.g p.a, b := mulAlpha p.b p.a, a := p.a }

def Px.valid (p : Px) : Prop := p.r ≤ p.a ∧ p.g ≤ p.a ∧ p.b ≤ p.a ∧ p.a ≤ 255

def applyColorMatrix (r : Rat → Rat) (m : List Rat) (p : Px) : Px := mulPx (colorMatrix r m (demulPx p))

/-- morphology.rs: fold of `min`/`max` over a window of pixels. -/
def erode (ps : List Px) : Px :=
  ps.foldl (fun acc p => { r := min p.r acc.r, g := min p.g acc.g, b := min p.b acc.b, a := min p.a acc.a })
    { r := 255, g := 255, b := 255, a := 255 }
def dilate (ps : List Px) : Px :=
  ps.foldl (fun acc p => { r := max p.r acc.r, g := max p.g acc.g, b := max p.b acc.b, a := max p.a acc.a })
    { r := 0, g := 0, b := 0, a := 0 }

/-- convolve_matrix.rs: the final per-pixel step given the accumulated sums. -/
def convolveFinish (r : Rat → Rat) (preserveAlpha : Bool) (divisor bias : Rat)
    (sumR sumG sumB sumA : Rat) (inA : Nat) : Px :=
  let newA := if preserveAlpha then r ((inA : Rat) / 255) else r (r (sumA / divisor) + bias)
  let bA := bound 0 newA 1
  let chan := fun x =>
    let x := r (r (x / divisor) + r (bias * newA))
    let x := if preserveAlpha then r (bound 0 x 1 * bA) else bound 0 x bA
    toU8 (r (r (x * 255) + 1 / 2))
  { r := chan sumR, g := chan sumG, b := chan sumB, a := toU8 (r (r (bA * 255) + 1 / 2)) }

/-- lighting.rs `calc_specular_alpha` / `calc_diffuse_alpha`: the alpha of a lighting result pixel -/
def specularAlpha (r g b : Nat) : Nat := max (max r g) b
def diffuseAlpha (_r _g _b : Nat) : Nat := 255

/-- the result pixel the lighting kernels store for computed colour channels `r g b` -/
def lightingPixel (specular : Bool) (r g b : Nat) : Px :=
  { r := r, g := g, b := b, a := if specular then specularAlpha r g b else diffuseAlpha r g b }

end Resvg.Pixel
