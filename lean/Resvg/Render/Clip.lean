/-
  Per-pixel coverage algebra of crates/resvg/src/clip.rs (`apply`, `draw_children`, `clip_group`)
  and crates/resvg/src/mask.rs (`apply`), in exact arithmetic on [0, 1]:
  * the clip buffer starts opaque (1);
  * a plain child with coverage `c` is drawn with `Clear`:            d ← d · (1 − c);
  * a child group that has its own clip-path is rendered aside (children source-over, coverage `s`),
    clipped by its own clip path (factor `f`) and composited with `DestinationOut` (fix 5e91a6d;
    it was `Xor` before):                                              d ← d · (1 − s·f);
  * a clip-path on the clipPath itself is applied to the target first (factor `n`);
  * finally the buffer is inverted and multiplied in:                  α ← α · n · (1 − d).
-/
namespace Resvg.Render

inductive ClipStep
  | plain (c : Rat)
  | clippedGroup (s f : Rat)
deriving Repr

/-- one drawing step on the clip buffer -/
def clipStep (d : Rat) : ClipStep → Rat
  | .plain c => d * (1 - c)
  | .clippedGroup s f => d * (1 - s * f)

/-- the clip buffer after all children -/
def clipBuffer (steps : List ClipStep) : Rat := steps.foldl clipStep 1

/-- the factor the target's alpha is multiplied with -/
def clipFactor (nested : Rat) (steps : List ClipStep) : Rat := nested * (1 - clipBuffer steps)

/-- the same with the `Xor` compositing of clipped groups (the code before fix 5e91a6d):
    `Xor`: d ← a·(1 − d) + d·(1 − a) with a = s·f -/
def clipStepXor (d : Rat) : ClipStep → Rat
  | .plain c => d * (1 - c)
  | .clippedGroup s f => (s * f) * (1 - d) + d * (1 - s * f)
def clipFactorXor (nested : Rat) (steps : List ClipStep) : Rat := nested * (1 - steps.foldl clipStepXor 1)

/-! ### clip children with clip paths, nested

`clip_group` renders a clipped child aside — on a *transparent* buffer to which that child's own
children are ADDED (source-over) — clips it and composites it onto the buffer it was called for.
That buffer is the clip buffer itself (opaque, children CLEAR it: composite with `DestinationOut`) or,
when the clipped child sits inside another clipped child, the transparent buffer of that one
(composite with `SourceOver`; a fix after 5e91a6d, which used `DestinationOut` there too and lost such
children). -/

/-- a child of a `clipPath`: a shape with coverage `c`, or a group (a `use`, a shape with its own
    `clip-path`) with the factor of its own clip path, if any -/
inductive ClipNode
  | plain (c : Rat)
  | group (clip : Option Rat) (children : List ClipNode)
deriving Repr

mutual
/-- drawing onto a transparent buffer (`SourceOver` context): alpha `a ↦ a'`; `nestedOver = false` is the
    code between 5e91a6d and the later fix -/
def drawOver (nestedOver : Bool) : ClipNode → Rat → Rat
  | .plain c, a => a + c * (1 - a)
  | .group none cs, a => drawOverList nestedOver cs a
  | .group (some f) cs, a =>
    let s := drawOverList nestedOver cs 0
    if nestedOver then a + (s * f) * (1 - a) else a * (1 - s * f)
def drawOverList (nestedOver : Bool) : List ClipNode → Rat → Rat
  | [], a => a
  | n :: ns, a => drawOverList nestedOver ns (drawOver nestedOver n a)
end

mutual
/-- drawing onto the clip buffer (`Clear` context): `d ↦ d'` -/
def drawClear (nestedOver : Bool) : ClipNode → Rat → Rat
  | .plain c, d => d * (1 - c)
  | .group none cs, d => drawClearList nestedOver cs d
  | .group (some f) cs, d => d * (1 - drawOverList nestedOver cs 0 * f)
def drawClearList (nestedOver : Bool) : List ClipNode → Rat → Rat
  | [], d => d
  | n :: ns, d => drawClearList nestedOver ns (drawClear nestedOver n d)
end

/-- the factor the target's alpha is multiplied with, for a tree of clip children -/
def clipFactorTree (nestedOver : Bool) (nested : Rat) (children : List ClipNode) : Rat :=
  nested * (1 - drawClearList nestedOver children 1)

/-- a flat step as a tree node -/
def ClipStep.toNode : ClipStep → ClipNode
  | .plain c => .plain c
  | .clippedGroup s f => .group (some f) [.plain s]

/-- coverage of several shapes drawn source-over onto a cleared buffer -/
def overAll (cs : List Rat) : Rat := 1 - cs.foldl (fun acc c => acc * (1 - c)) 1

/-- mask.rs: the mask value at a pixel (`m`: luminance or alpha of the rendered mask content,
    `inRect`: the pixel lies inside the mask rectangle), times the factor of a mask on the mask -/
def maskFactor (inRect : Bool) (m nested : Rat) : Rat := if inRect then m * nested else 0

/-- coefficient-weighted luminance used by tiny-skia's `Mask::from_pixmap(Luminance)` on
    demultiplied colour, times alpha -/
def luminance (r g b a : Rat) : Rat := (2125 / 10000 * r + 7154 / 10000 * g + 721 / 10000 * b) * a

end Resvg.Render
