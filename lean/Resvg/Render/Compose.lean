/-
  Premultiplied RGBA compositing in exact arithmetic (what tiny-skia's `draw_pixmap` with
  `SourceOver` and an opacity computes up to 8-bit rounding), and `Group::should_isolate`
  (crates/usvg/src/tree/mod.rs).
-/
namespace Resvg.Render

structure RGBA where
  r : Rat
  g : Rat
  b : Rat
  a : Rat
deriving DecidableEq, Repr

namespace RGBA
def clear : RGBA := ⟨0, 0, 0, 0⟩
/-- source-over: `s + d·(1 − s.a)` -/
def over (d s : RGBA) : RGBA :=
  ⟨s.r + d.r * (1 - s.a), s.g + d.g * (1 - s.a), s.b + d.b * (1 - s.a), s.a + d.a * (1 - s.a)⟩
/-- multiply by an opacity -/
def scale (o : Rat) (s : RGBA) : RGBA := ⟨s.r * o, s.g * o, s.b * o, s.a * o⟩
end RGBA

/-- draw a list of (already rasterised) children onto a backdrop, in order -/
def drawAll (d : RGBA) (cs : List RGBA) : RGBA := cs.foldl RGBA.over d

/-- render_group for an isolated, normally blended group at one pixel: children onto a cleared
    layer, layer scaled by the group opacity, composited onto the backdrop -/
def drawIsolated (d : RGBA) (opacity : Rat) (cs : List RGBA) : RGBA :=
  RGBA.over d (RGBA.scale opacity (drawAll RGBA.clear cs))

structure GroupFlags where
  isolate : Bool
  opacityIsOne : Bool
  hasClip : Bool
  hasMask : Bool
  hasFilters : Bool
  blendNormal : Bool

/-- `Group::should_isolate` -/
def shouldIsolate (g : GroupFlags) : Bool :=
  g.isolate || !g.opacityIsOne || g.hasClip || g.hasMask || g.hasFilters || !g.blendNormal

end Resvg.Render
