/-
  crates/resvg/src/filter/mod.rs `apply_inner`, reduced to its size bookkeeping: which pixmap
  sizes reach which per-pixel kernel.  `region` is recomputed from the filter rectangle (not
  clamped), `source` is the group layer (clamped by `fit_to_rect`).  Kernels that `assert!` equal
  sizes: composite::arithmetic, displacement_map::apply, lighting::{diffuse,specular}_lighting;
  since fix fa8179e their inputs are padded to the region size (`fit_to_region`).
  Also crates/resvg/src/path.rs `render_pattern_pixmap` (tile size).
-/
namespace Resvg.Render

/-- a filter input after name resolution (`get_input`): the source, or the result of primitive `j` -/
inductive FIn
  | source
  | ref (j : Nat)
deriving DecidableEq, Repr

inductive FPrim
  | blend (a b : FIn)
  | dropShadow (a : FIn)
  | flood
  | blur (a : FIn)
  | offset (a : FIn)
  | composite (arith : Bool) (a b : FIn)
  | merge (ins : List FIn)
  | tile (a : FIn)
  | image
  | componentTransfer (a : FIn)
  | colorMatrix (a : FIn)
  | convolve (a : FIn)
  | morphology (a : FIn)
  | displacement (a b : FIn)
  | turbulence
  | diffuse (a : FIn)
  | specular (a : FIn)
deriving Repr

abbrev Sz := Nat × Nat

/-- size of the image `get_input` returns -/
def inSize (src : Sz) (results : List Sz) : FIn → Sz
  | .source => src
  | .ref j => results.getD j src    -- unknown name: falls back to SourceGraphic

/-- one step of `apply_inner`: size of the primitive's result. Since fix fa8179e the inputs of the
    kernels that assert equal sizes are padded to the region size first (`fit_to_region`), so no
    assertion can fire; the `Except` is kept so that old and new can be compared -/
def primSize (region src : Sz) (results : List Sz) : FPrim → Except String Sz
  | .blend _ _ => .ok region
  | .dropShadow a => .ok (inSize src results a)
  | .flood => .ok region
  | .blur a => .ok (inSize src results a)
  | .offset a => .ok (inSize src results a)
  | .composite _ _ _ => .ok region
  | .merge _ => .ok region
  | .tile _ => .ok region
  | .image => .ok region
  | .componentTransfer a => .ok (inSize src results a)
  | .colorMatrix a => .ok (inSize src results a)
  | .convolve a => .ok (inSize src results a)
  | .morphology a => .ok (inSize src results a)
  | .displacement _ _ => .ok region
  | .turbulence => .ok region
  | .diffuse _ => .ok region
  | .specular _ => .ok region

/-- the sizes `fit_to_region` hands to a kernel that asserts equal sizes: always the region's -/
def kernelInputSizes (region src : Sz) (results : List Sz) : FPrim → List Sz
  | .composite true a b => [inSize src results a, inSize src results b].map fun _ => region
  | .displacement a b => [inSize src results a, inSize src results b].map fun _ => region
  | .diffuse a => [inSize src results a].map fun _ => region
  | .specular a => [inSize src results a].map fun _ => region
  | _ => []

/-- sizes of all primitive results, in order -/
def sizeBook (region src : Sz) : List FPrim → List Sz → Except String (List Sz)
  | [], acc => .ok acc
  | p :: ps, acc =>
    match primSize region src acc p with
    | .error e => .error e
    | .ok s => sizeBook region src ps (acc ++ [s])

/-- before fix fa8179e — one step of `apply_inner`: size of the primitive's result, or the failing `assert!` -/
def primSizeOld (region src : Sz) (results : List Sz) : FPrim → Except String Sz
  | .blend _ _ => .ok region
  | .dropShadow a => .ok (inSize src results a)
  | .flood => .ok region
  | .blur a => .ok (inSize src results a)
  | .offset a => .ok (inSize src results a)
  | .composite arith a b =>
    if arith then
      let sa := inSize src results a
      let sb := inSize src results b
      if ¬ (sa.1 = sb.1 ∧ sa.1 = region.1) then
        .error "crates/resvg/src/filter/composite.rs:assertion_failed:_src#.width_==_src#.width_&&_src#.width_==_dest.width"
      else if ¬ (sa.2 = sb.2 ∧ sa.2 = region.2) then
        .error "crates/resvg/src/filter/composite.rs:assertion_failed:_src#.height_==_src#.height_&&_src#.height_==_dest.height"
      else .ok region
    else .ok region
  | .merge _ => .ok region
  | .tile _ => .ok region
  | .image => .ok region
  | .componentTransfer a => .ok (inSize src results a)
  | .colorMatrix a => .ok (inSize src results a)
  | .convolve a => .ok (inSize src results a)
  | .morphology a => .ok (inSize src results a)
  | .displacement a b =>
    let sa := inSize src results a
    let sb := inSize src results b
    if ¬ (sa.1 = sb.1 ∧ sa.1 = region.1) then
      .error "crates/resvg/src/filter/displacement_map.rs:assertion_failed:_src.width_==_map.width_&&_src.width_==_dest.width"
    else if ¬ (sa.2 = sb.2 ∧ sa.2 = region.2) then
      .error "crates/resvg/src/filter/displacement_map.rs:assertion_failed:_src.height_==_map.height_&&_src.height_==_dest.height"
    else .ok region
  | .turbulence => .ok region
  | .diffuse a =>
    if inSize src results a = region then .ok region else .error "crates/resvg/src/filter/lighting.rs:assertion_failed:_src.width_==_dest.width_&&_src.height_==_dest.height"
  | .specular a =>
    if inSize src results a = region then .ok region else .error "crates/resvg/src/filter/lighting.rs:assertion_failed:_src.width_==_dest.width_&&_src.height_==_dest.height"

/-- sizes of all primitive results, in order; `.error` = the `assert!` that fires -/
def sizeBookOld (region src : Sz) : List FPrim → List Sz → Except String (List Sz)
  | [], acc => .ok acc
  | p :: ps, acc =>
    match primSizeOld region src acc p with
    | .error e => .error e
    | .ok s => sizeBookOld region src ps (acc ++ [s])

/-- path.rs `render_pattern_pixmap`: tile size `(round(w·sx) as u32, round(h·sy) as u32)`;
    `q` are exact values of the f32 products. `none` = `IntSize::from_wh` / `Pixmap::new` refuse. -/
def patternTile (wsx hsy : Rat) : Option Sz :=
  let rw := (wsx + 1 / 2).floor   -- f32::round for non-negative values (half away from zero)
  let rh := (hsy + 1 / 2).floor
  let cw := if rw < 0 then 0 else if rw > 4294967295 then 4294967295 else rw
  let ch := if rh < 0 then 0 else if rh > 4294967295 then 4294967295 else rh
  if cw = 0 ∨ ch = 0 then none
  else if cw * 4 > 2147483647 then none     -- tiny-skia `min_row_bytes`
  else some (cw.toNat, ch.toNat)

end Resvg.Render
