/-
  crates/resvg/src/filter/turbulence.rs: `init` (seed reduction) and `random` (the Park–Miller
  generator in Schrage's form).  Integers are unbounded here; the theorems in Props/C02 show that every
  intermediate value fits the machine type the code computes it in.
  Rust's `%` and `/` on integers truncate toward zero: `Int.tmod`, `Int.tdiv`.
  The constants come from the current sources (Generated/RenderLimits.lean).
-/
import Resvg.Generated.RenderLimits

namespace Resvg.Render
open Resvg.Generated

/-- `init`: a non-positive seed becomes `-seed % (RAND_M - 1) + 1`, a seed above `RAND_M - 1` is capped -/
def seedInit (seed : Int) : Int :=
  let s := if seed ≤ 0 then Int.tmod (-seed) (randM - 1) + 1 else seed
  if s > randM - 1 then randM - 1 else s

/-- `random`: `RAND_A * (seed % RAND_Q) - RAND_R * (seed / RAND_Q)`, plus `RAND_M` when not positive -/
def random (seed : Int) : Int :=
  let r := randA * Int.tmod seed randQ - randR * Int.tdiv seed randQ
  if r ≤ 0 then r + randM else r

/-- the value fits `i32` -/
def fitsI32 (x : Int) : Prop := -2147483648 ≤ x ∧ x ≤ 2147483647

/-- the value fits `i64` -/
def fitsI64 (x : Int) : Prop := -9223372036854775808 ≤ x ∧ x ≤ 9223372036854775807

end Resvg.Render
