/-
  crates/resvg/src/filter/turbulence.rs: `init` (seed reduction) and `random` (the Park–Miller
  generator in Schrage's form).  Integers are unbounded here; the theorems in Props/C02 show that every
  intermediate value fits the machine type the code computes it in.
  Rust's `%` and `/` on integers truncate toward zero: `Int.tmod`, `Int.tdiv`.
  The constants come from the current sources (Generated/RenderLimits.lean).
-/
import Resvg.Generated.RenderLimits

namespace Resvg.Render
open Resvg.Generated

/-- `init`: a non-positive seed becomes `-seed % (RAND_M - 1) + 1`, a seed above `RAND_M - 1` is capped -/
def seedInit (seed : Int) : Int :=
  let s := if seed ≤ 0 then Int.tmod (-seed) (randM - 1) + 1 else seed
  if s > randM - 1 then randM - 1 else s

/-- `random`: `RAND_A * (seed % RAND_Q) - RAND_R * (seed / RAND_Q)`, plus `RAND_M` when not positive -/
def random (seed : Int) : Int :=
  let r := randA * Int.tmod seed randQ - randR * Int.tdiv seed randQ
  if r ≤ 0 then r + randM else r

/-- the value fits `i32` -/
def fitsI32 (x : Int) : Prop := -2147483648 ≤ x ∧ x ≤ 2147483647

/-- the value fits `i64` -/
def fitsI64 (x : Int) : Prop := -9223372036854775808 ≤ x ∧ x ≤ 9223372036854775807

/-! ### `noise2`: the interpolation on one lattice cell (reals modelled by `Rat`)

`rx0`, `ry0` are the fractional parts of the lattice coordinates, `q‥` the (unit-length) gradient
vectors of the four cell corners. -/

/-- `s_curve(t) = t * t * (3 - 2 t)` -/
def sCurve (t : Rat) : Rat := t * t * (3 - 2 * t)

/-- `lerp(t, a, b) = a + t * (b - a)` -/
def lerp (t a b : Rat) : Rat := a + t * (b - a)

/-- the body of `noise2` after the lattice look-ups -/
def noiseCell (rx0 ry0 q00x q00y q10x q10y q01x q01y q11x q11y : Rat) : Rat :=
  let rx1 := rx0 - 1
  let ry1 := ry0 - 1
  let sx := sCurve rx0
  let sy := sCurve ry0
  let a := lerp sx (rx0 * q00x + ry0 * q00y) (rx1 * q10x + ry0 * q10y)
  let b := lerp sx (rx0 * q01x + ry1 * q01y) (rx1 * q11x + ry1 * q11y)
  lerp sy a b

/-- the octave loop of `turbulence` for the fractal-noise sum: `Σ noise_k / 2^k` -/
def octaveSum (noise : Nat → Rat) : Nat → Rat
  | 0 => 0
  | n + 1 => octaveSum noise n + noise n / 2 ^ n

end Resvg.Render
