/-
  resvg filter/mod.rs — colour-space bookkeeping of filter images.

  Every intermediate image carries a tag (`Image.color_space`).  `into_color_space(cs)` converts the data only
  when the tag differs from `cs`, and the filter result is converted back to sRGB when its tag says linear.
  The data is right exactly when the tag tells the truth: we count the conversions applied to data that
  started out as sRGB (`into_linear_rgb` = +1, `into_srgb` = −1) and compare with the tag.
-/
namespace Resvg.Render

inductive CSpace where
  | srgb
  | linear
deriving DecidableEq, Repr

/-- an image as the bookkeeping sees it: the tag, and the net number of sRGB → linear conversions its colour went through -/
structure Tagged where
  tag : CSpace
  conversions : Int
deriving DecidableEq, Repr

/-- the tag tells the truth -/
def Tagged.consistent (t : Tagged) : Prop :=
  t.conversions = (if t.tag = .linear then 1 else 0)

instance (t : Tagged) : Decidable t.consistent := by unfold Tagged.consistent; infer_instance

/-- `Image::into_color_space` -/
def intoSpace (t : Tagged) (cs : CSpace) : Tagged :=
  if t.tag = cs then t
  else match cs with
    | .linear => ⟨.linear, t.conversions + 1⟩
    | .srgb => ⟨.srgb, t.conversions - 1⟩

/-- the end of `apply_inner`: the result is brought back to sRGB -/
def finish (t : Tagged) : Tagged := intoSpace t .srgb

/-- a primitive that paints a colour given in sRGB, described by the row the translator reads off the sources:
    `tag` ∈ srgb / linear / cs, `conv` ∈ never / when-linear / always; `cs` is the filter's working space -/
def paintedColour (tag conv : String) (cs : CSpace) : Tagged :=
  let t : CSpace := if tag = "srgb" then .srgb else if tag = "linear" then .linear else cs
  let c : Int := if conv = "always" then 1 else if conv = "when-linear" then (if cs = .linear then 1 else 0) else 0
  ⟨t, c⟩

/-- a primitive that copies pixels unchanged (feOffset, feTile), described by the row the translator reads off
    the sources: the tag of its result is that of its `input`, or a fixed one -/
def passThrough (tag : String) (input : Tagged) : Tagged :=
  ⟨if tag = "input" then input.tag else if tag = "linear" then .linear else .srgb, input.conversions⟩

end Resvg.Render
