/-
  crates/resvg/src/render.rs `render_group` (layer rectangle), crates/resvg/src/geom.rs
  `fit_to_rect`, crates/resvg/src/lib.rs `render` (max_bbox), tiny-skia-path `IntRect`.
  Integers are `Int` with explicit i32/u32 range checks where Rust checks (or overflows).
  The f32 inputs (the transformed layer bounding box) enter as exact rationals: ⌊·⌋, ⌈·⌉ and the
  integer arithmetic after them are exact, so this part of the model is compared bit-exactly.
-/
namespace Resvg.Render

def i32Min : Int := -2147483648
def i32Max : Int := 2147483647
def u32Max : Int := 4294967295

/-- Rust `f as i32` for a finite f32 whose value is the integer `n` (saturating) -/
def satI32 (n : Int) : Int := if n < i32Min then i32Min else if n > i32Max then i32Max else n
/-- Rust `f as u32` for a finite f32 whose value is the integer `n` (saturating) -/
def satU32 (n : Int) : Int := if n < 0 then 0 else if n > u32Max then u32Max else n

/-- tiny-skia `IntRect`: `x + w`, `y + h` fit in i32, `w, h ≥ 1` -/
structure IntRect where
  x : Int
  y : Int
  w : Int
  h : Int
deriving DecidableEq, Repr

namespace IntRect
/-- `IntRect::from_xywh(x: i32, y: i32, width: u32, height: u32)` -/
def fromXywh (x y w h : Int) : Option IntRect :=
  -- i32::try_from(width).ok()?, x.checked_add(..)?, LengthU32::new(width)?
  if w > i32Max ∨ h > i32Max then none
  else if x + w > i32Max ∨ y + h > i32Max then none
  else if w < 1 ∨ h < 1 then none
  else some ⟨x, y, w, h⟩

def right (r : IntRect) : Int := r.x + r.w
def bottom (r : IntRect) : Int := r.y + r.h

/-- `IntRect::from_ltrb(left, top, right, bottom)` (all i32) -/
def fromLtrb (l t r b : Int) : Option IntRect :=
  -- right.checked_sub(left)? ; u32::try_from(..).ok()?
  if r - l > i32Max ∨ r - l < i32Min ∨ b - t > i32Max ∨ b - t < i32Min then none
  else if r - l < 0 ∨ b - t < 0 then none
  else fromXywh l t (r - l) (b - t)

def subset (a b : IntRect) : Prop := b.x ≤ a.x ∧ b.y ≤ a.y ∧ a.right ≤ b.right ∧ a.bottom ≤ b.bottom
instance (a b : IntRect) : Decidable (subset a b) := by unfold subset; exact inferInstance
end IntRect

/-- geom.rs `fit_to_rect(r, bounds)` -/
def fitToRect (r bounds : IntRect) : Option IntRect :=
  let left := if r.x < bounds.x then bounds.x else r.x
  let top := if r.y < bounds.y then bounds.y else r.y
  let right := if r.right > bounds.right then bounds.right else r.right
  let bottom := if r.bottom > bounds.bottom then bounds.bottom else r.bottom
  IntRect.fromLtrb left top right bottom

/-- lib.rs `render`: `IntRect::from_xywh(-(W as i32) * 2, -(H as i32) * 2, W * 5, H * 5).unwrap()` -/
def maxBBox (W H : Int) : Except String IntRect :=
  -- `W * 5` is a u32 multiplication (overflow-checked in the dev profile)
  if W * 5 > u32Max ∨ H * 5 > u32Max then .error "crates/resvg/src/lib.rs:attempt_to_multiply_with_overflow"
  else match IntRect.fromXywh (-(W) * 2) (-(H) * 2) (W * 5) (H * 5) with
    | some r => .ok r
    | none => .error "crates/resvg/src/lib.rs:called_`Option::unwrap()`_on_a_`None`_value"

/-- i32 `saturating_sub` / u32 `saturating_add` -/
def satSubI32 (a b : Int) : Int := satI32 (a - b)
def satAddU32 (a b : Int) : Int := satU32 (a + b)

/-- geom.rs `to_int_rect` (checked variant of `NonZeroRect::to_int_rect`) -/
def toIntRect (x y w h : Rat) : Option IntRect :=
  let cw := satU32 w.ceil
  let ch := satU32 h.ceil
  IntRect.fromXywh (satI32 x.floor) (satI32 y.floor) (if cw < 1 then 1 else cw) (if ch < 1 then 1 else ch)

/-- The layer rectangle of `render_group`.
    `x y w h`: exact values of the f32 fields of `layer_bounding_box().transform(ts)` (w, h > 0).
    Result: `.ok none` = group skipped (`?`), `.error site` = panic in the dev profile
    (none left after the fix 4d447f2: saturating arithmetic and a checked conversion). -/
def layerRect (x y w h : Rat) (noFilters : Bool) (maxB : IntRect) : Except String (Option IntRect) :=
  if noFilters then
    match IntRect.fromXywh (satSubI32 (satI32 x.floor) 2) (satSubI32 (satI32 y.floor) 2)
        (satAddU32 (satU32 w.ceil) 4) (satAddU32 (satU32 h.ceil) 4) with
    | none => .ok none
    | some r => .ok (fitToRect r maxB)
  else
    match toIntRect x y w h with
    | none => .ok none
    | some r => .ok (fitToRect r maxB)

/-- render_group: the `Context` handed to the children (and the mask) of an offscreen layer —
    `max_bbox` translated into the layer's own coordinate system (fix 64ee706); when the translated
    box is not representable the parent's box is kept. -/
def childMaxBox (mb ibbox : IntRect) : IntRect :=
  match IntRect.fromXywh (satI32 (mb.x - ibbox.x)) (satI32 (mb.y - ibbox.y)) mb.w mb.h with
  | some r => r
  | none => mb

end Resvg.Render
