/-
  crates/resvg/src/lib.rs `render_node` (after fix): the transform a node is exported with, and
  crates/usvg/src/tree/mod.rs `node_by_id`.
-/
import Resvg.Geom.Transform
namespace Resvg.Render
open Resvg Resvg.Geom

variable {α : Type} [Flt α]

/-- the transform handed to `render::render_node`: the caller's transform, the shift of the node's
    absolute layer box to the origin, then the ancestors' transforms (the node's own transform is
    applied by `render_group`) -/
def exportTransform (user : Transform α) (bx byy : α) (ancestors : Transform α) : Transform α :=
  (user.preTranslate (Flt.neg bx) (Flt.neg byy)).preConcat ancestors

/-- what it was before the fix: the ancestors' transforms were left out -/
def exportTransformOld (user : Transform α) (bx byy : α) : Transform α :=
  user.preTranslate (Flt.neg bx) (Flt.neg byy)

/-! ### `node_by_id` -/

mutual
/-- a node: its id and, for a group, its children -/
inductive IdNode where
  | mk (id : String) (children : IdNodes)
inductive IdNodes where
  | nil
  | cons (n : IdNode) (rest : IdNodes)
end

mutual
/-- `node_by_id(parent, id)`: children in order, each child first, then its subtree; the result is
    the path (child indexes) of the node found -/
def findById (id : String) : IdNodes → Nat → Option (List Nat)
  | .nil, _ => none
  | .cons (.mk nid kids) rest, i =>
    if nid = id then some [i]
    else match findById id kids 0 with
      | some p => some (i :: p)
      | none => findById id rest (i + 1)
end

mutual
def carriesN (id : String) : IdNode → Bool
  | .mk nid kids => nid = id || carriesL id kids
def carriesL (id : String) : IdNodes → Bool
  | .nil => false
  | .cons n rest => carriesN id n || carriesL id rest
end

/-! ### the canvas and "nothing to render" -/

/-- tiny-skia-path `Rect::to_non_zero_rect` on a box given by its sides: refused when a side is empty -/
def toNonZero (l t r b : Rat) : Option (Rat × Rat × Rat × Rat) :=
  if l < r ∧ t < b then some (l, t, r, b) else none

/-- `Node::abs_layer_bounding_box` (groups: the layer box; shapes: the absolute object box), as a non-zero
    rectangle, and `render_node` built on it: `none` = "nothing to render" -/
def renderNodeCanvas (l t r b : Rat) (s : Rat) : Option (Rat × Rat) :=
  match toNonZero l t r b with
  | some (l, t, r, b) => some (s * (r - l), s * (b - t))
  | none => none

end Resvg.Render
