/-
  crates/usvg/src/tree/mod.rs: `Group::collect_clip_paths` / `collect_masks` / `collect_filters`
  and `Tree::collect_paint_servers` (`loop_over_paint_servers`), after fixes a695c10 and 209143f.

  A definition (`Arc<ClipPath>`, `Arc<Mask>`, …) is identified by its address, a `Nat`.
  For one kind of definition a node is described by
    * `refs`      – the addresses the collector reads off the node itself, in the order it reads
                    them (clip paths: the whole `clip-path` chain of a group; masks: the `mask`
                    chain; filters: the filter list; paint servers: fill then stroke of a path),
    * `unseen`    – addresses that are referenced from the node through the public API but that the
                    collector never looks at (fill / stroke / decoration paints of text spans),
    * `subroots`  – the children of all sub-root groups of the node, concatenated in `subroots()`
                    order (clip-path and mask chain roots, feImage roots, pattern roots, flattened
                    text); nested SVG images are trees of their own and contribute nothing,
    * `children`  – the children of a group.
-/
namespace Resvg.Tree

mutual
inductive Nd where
  | mk (refs : List Nat) (unseen : List Nat) (subroots : NdL) (children : NdL)
inductive NdL where
  | nil
  | cons (n : Nd) (rest : NdL)
end

/-- `if !v.iter().any(|o| Arc::ptr_eq(x, o)) { v.push(x) }` -/
def pushNew (acc : List Nat) (a : Nat) : List Nat := if a ∈ acc then acc else acc ++ [a]

mutual
/-- clip paths / masks / filters: own references, then sub-roots, then children -/
def collectN : Nd → List Nat → List Nat
  | .mk refs _ subs children, acc => collectL children (collectL subs (refs.foldl pushNew acc))
def collectL : NdL → List Nat → List Nat
  | .nil, acc => acc
  | .cons n rest, acc => collectL rest (collectN n acc)
end

mutual
/-- paint servers (`loop_over_paint_servers`): children (or own paints), then sub-roots -/
def collectPaintN : Nd → List Nat → List Nat
  | .mk refs _ subs children, acc => collectPaintL subs (collectPaintL children (refs.foldl pushNew acc))
def collectPaintL : NdL → List Nat → List Nat
  | .nil, acc => acc
  | .cons n rest, acc => collectPaintL rest (collectPaintN n acc)
end

mutual
/-- every address the collectors can see -/
def seenN : Nd → List Nat
  | .mk refs _ subs children => refs ++ seenL subs ++ seenL children
def seenL : NdL → List Nat
  | .nil => []
  | .cons n rest => seenN n ++ seenL rest
end

mutual
/-- every address referenced anywhere in the tree -/
def reachN : Nd → List Nat
  | .mk refs unseen subs children => refs ++ unseen ++ reachL subs ++ reachL children
def reachL : NdL → List Nat
  | .nil => []
  | .cons n rest => reachN n ++ reachL rest
end

mutual
/-- no node carries references the collectors do not look at -/
def noUnseenN : Nd → Bool
  | .mk _ unseen subs children => unseen.isEmpty && noUnseenL subs && noUnseenL children
def noUnseenL : NdL → Bool
  | .nil => true
  | .cons n rest => noUnseenN n && noUnseenL rest
end

mutual
/-- the collector as it was before fix a695c10: only the first two elements of a chain -/
def collectOldN : Nd → List Nat → List Nat
  | .mk refs _ subs children, acc => collectOldL children (collectOldL subs ((refs.take 2).foldl pushNew acc))
def collectOldL : NdL → List Nat → List Nat
  | .nil, acc => acc
  | .cons n rest, acc => collectOldL rest (collectOldN n acc)
end

end Resvg.Tree
