/-
  usvg tree/mod.rs `Path::can_be_stroked` (fix 1f07717) and the arithmetic of tiny-skia-path
  `find_quad_max_curvature` that it protects: the stroker unwraps `NormalizedF32::new(numer / denom)`,
  which is `None` exactly when the ratio is NaN, i.e. when a product of coordinate differences overflowed.
  `r` is the f32 rounding of one operation.
-/
namespace Resvg.Tree

structure Pt where
  x : Rat
  y : Rat

/-- `f32::MAX` -/
def f32Max : Rat := (2 ^ 24 - 1) * 2 ^ 104

/-- `Path::can_be_stroked` on the bounds of the points -/
def withinLimit (L : Rat) (p : Pt) : Prop := -L ≤ p.x ∧ p.x ≤ L ∧ -L ≤ p.y ∧ p.y ≤ L

/-- `ax`, `bx` of find_quad_max_curvature for one coordinate, as f32 operations -/
def quadA (r : Rat → Rat) (c0 c1 : Rat) : Rat := r (c1 - c0)
def quadB (r : Rat → Rat) (c0 c1 c2 : Rat) : Rat := r (r (r (c0 - c1) - c1) + c2)

/-- `numer = -(ax * bx + ay * by)` -/
def quadNumer (r : Rat → Rat) (p0 p1 p2 : Pt) : Rat :=
  -(r (r (quadA r p0.x p1.x * quadB r p0.x p1.x p2.x) + r (quadA r p0.y p1.y * quadB r p0.y p1.y p2.y)))

/-- `denom = bx * bx + by * by` -/
def quadDenom (r : Rat → Rat) (p0 p1 p2 : Pt) : Rat :=
  r (r (quadB r p0.x p1.x p2.x * quadB r p0.x p1.x p2.x) + r (quadB r p0.y p1.y p2.y * quadB r p0.y p1.y p2.y))

end Resvg.Tree
