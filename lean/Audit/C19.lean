import Resvg.Props.C19
#print axioms Resvg.Props.C19.act_preTranslate
#print axioms Resvg.Props.C19.C19_export_is_shifted_full_rendering
#print axioms Resvg.Props.C19.C19_old_export_misplaces
#print axioms Resvg.Props.C19.C19_box_maps_onto_canvas
#print axioms Resvg.Props.C19.C19_nothing_iff_zero_sized
#print axioms Resvg.Props.C19.findById_node
#print axioms Resvg.Props.C19.findById_list
#print axioms Resvg.Props.C19.C19_node_by_id_iff_carried
#print axioms Resvg.Props.C19.scaled_box_origin
#print axioms Resvg.Props.C19.C19_image_export_origin
#print axioms Resvg.Props.C19.C19_old_image_export_off_canvas
