import Resvg.Props.C20
#print axioms Resvg.Props.C20.ceilI_ge
#print axioms Resvg.Props.C20.ceilI_lt
#print axioms Resvg.Props.C20.C20_width_rule
#print axioms Resvg.Props.C20.C20_size_rule_fits
#print axioms Resvg.Props.C20.C20_original
#print axioms Resvg.Props.C20.C20_zero_refused
