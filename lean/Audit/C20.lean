import Resvg.Props.C20
#print axioms Resvg.Props.C20.ceilI_ge
#print axioms Resvg.Props.C20.ceilI_lt
#print axioms Resvg.Props.C20.C20_width_rule
#print axioms Resvg.Props.C20.C20_height_rule
#print axioms Resvg.Props.C20.C20_zoom_rule
#print axioms Resvg.Props.C20.C20_size_rule_fits
#print axioms Resvg.Props.C20.C20_original
#print axioms Resvg.Props.C20.C20_zero_refused
#print axioms Resvg.Props.C20.toIntSize_nat
#print axioms Resvg.Props.C20.C20_export_object_fills_image
#print axioms Resvg.Props.C20.C20_export_page_geometry
#print axioms Resvg.Props.C20.C20_old_export_wrong
