import Resvg.Props.C01
#print axioms Resvg.Props.C01.foldl_congr_mem
#print axioms Resvg.Props.C01.C01_text_fuel_suffices
#print axioms Resvg.Props.C01.C01_fuel_suffices
#print axioms Resvg.Props.C01.C01_text_nodes_bounded
#print axioms Resvg.Props.C01.C01_nodes_bounded
#print axioms Resvg.Props.C01.C01_build_nodes_bounded
#print axioms Resvg.Props.C01.C01_href_iter_terminates
#print axioms Resvg.Props.C01.rb
#print axioms Resvg.Props.C01.quadA_bound
#print axioms Resvg.Props.C01.quadB_bound
#print axioms Resvg.Props.C01.prod_bound
#print axioms Resvg.Props.C01.absOf
#print axioms Resvg.Props.C01.C01_stroker_quad_intermediates_bounded
#print axioms Resvg.Props.C01.C01_stroke_limit_below_f32_max
#print axioms Resvg.Props.C01.C01_stroke_guard_in_place
#print axioms Resvg.Props.C01.C01_unguarded_quad_overflows
