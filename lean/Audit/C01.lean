import Resvg.Props.C01
#print axioms Resvg.Props.C01.foldl_congr_mem
#print axioms Resvg.Props.C01.C01_fuel_suffices
#print axioms Resvg.Props.C01.C01_nodes_bounded
#print axioms Resvg.Props.C01.C01_build_nodes_bounded
#print axioms Resvg.Props.C01.C01_href_iter_terminates
