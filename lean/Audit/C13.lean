import Resvg.Props.C13
#print axioms Resvg.Props.C13.C13_floor_shift
#print axioms Resvg.Props.C13.C13_ceil_shift
#print axioms Resvg.Props.C13.layerRect_eq_raw
#print axioms Resvg.Props.C13.fromXywh_shift
#print axioms Resvg.Props.C13.C13_raw_layer_shift
#print axioms Resvg.Props.C13.fromXywh_valid
#print axioms Resvg.Props.C13.rawLayer_valid
#print axioms Resvg.Props.C13.fit_of_subset
#print axioms Resvg.Props.C13.C13_layer_shift
#print axioms Resvg.Props.C13.C13_local_invariant
#print axioms Resvg.Props.C13.C13_light_point_commutes
#print axioms Resvg.Props.C13.C13_light_spot_commutes
#print axioms Resvg.Props.C13.C13_light_spot_commutes_old_false
#print axioms Resvg.Props.C13.C13_light_local
