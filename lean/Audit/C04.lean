import Resvg.Props.C04
#print axioms Resvg.Props.C04.clamp01_range
#print axioms Resvg.Props.C04.clamp01_id
#print axioms Resvg.Props.C04.clamp01_mono
#print axioms Resvg.Props.C04.shiftRec_sorted
#print axioms Resvg.Props.C04.shiftRec_range
#print axioms Resvg.Props.C04.shiftEqual_sorted
#print axioms Resvg.Props.C04.shiftEqual_range
#print axioms Resvg.Props.C04.inUnit_eraseIdx
#print axioms Resvg.Props.C04.inUnit_set
#print axioms Resvg.Props.C04.dedup_inUnit
#print axioms Resvg.Props.C04.zeroStep_inUnit
#print axioms Resvg.Props.C04.fixZeros_inUnit
#print axioms Resvg.Props.C04.C04_stop_offsets_valid
#print axioms Resvg.Props.C04.C04_old_loop_descends
#print axioms Resvg.Props.C04.C04_dasharray_valid
#print axioms Resvg.Props.C04.C04_miter_ge_one
