import Resvg.Props.C06
#print axioms Resvg.Props.C06.C06_hash_containers_key_based
#print axioms Resvg.Props.C06.C06_no_variation_sources
#print axioms Resvg.Props.C06.get_of_not_mem_keys
#print axioms Resvg.Props.C06.get_perm
#print axioms Resvg.Props.C06.keys_filter_nodup
#print axioms Resvg.Props.C06.not_mem_keys_filter
#print axioms Resvg.Props.C06.insert_keys_nodup
#print axioms Resvg.Props.C06.insert_perm
#print axioms Resvg.Props.C06.C06_order_unobservable
