import Resvg.Props.C18
#print axioms Resvg.Props.C18.act_fromBbox
#print axioms Resvg.Props.C18.C18_gradient_equivalent
#print axioms Resvg.Props.C18.C18_clip_equivalent
#print axioms Resvg.Props.C18.C18_region_equivalent
#print axioms Resvg.Props.C18.C18_pattern_content
#print axioms Resvg.Props.C18.C18_different_boxes_different_resolution
#print axioms Resvg.Props.C18.det_mulT
#print axioms Resvg.Props.C18.C18_rewriting_scales_det
#print axioms Resvg.Props.C18.C18_nonzero_box_keeps_invertible
#print axioms Resvg.Props.C18.C18_zero_box_degenerate
#print axioms Resvg.Props.C18.C18_shareable_chain_is_box_independent
#print axioms Resvg.Props.C18.C18_old_sharing_rule_wrong
