import Resvg.Props.C15
#print axioms Resvg.Props.C15.clipStep_range
#print axioms Resvg.Props.C15.foldl_range
#print axioms Resvg.Props.C15.C15_clip_factor_range
#print axioms Resvg.Props.C15.C15_clip_monotone
#print axioms Resvg.Props.C15.foldl_one_of_zero
#print axioms Resvg.Props.C15.C15_outside_zero
#print axioms Resvg.Props.C15.foldl_zero
#print axioms Resvg.Props.C15.C15_inside_kept
#print axioms Resvg.Props.C15.C15_inside_kept_xor_false
#print axioms Resvg.Props.C15.C15_mask_monotone
#print axioms Resvg.Props.C15.C15_mask_outside_zero
#print axioms Resvg.Props.C15.C15_white_mask_identity
#print axioms Resvg.Props.C15.C15_opacity_monotone
#print axioms Resvg.Props.C15.C15_tree_embeds_flat
#print axioms Resvg.Props.C15.C15_nested_clipped_child_counts
#print axioms Resvg.Props.C15.C15_old_nested_clipped_child_lost
#print axioms Resvg.Props.C15.C15_nested_full_cover_kept
