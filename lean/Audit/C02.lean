import Resvg.Props.C02
#print axioms Resvg.Props.C02.fromXywh_some
#print axioms Resvg.Props.C02.fromLtrb_some
#print axioms Resvg.Props.C02.C02_fit_sub
#print axioms Resvg.Props.C02.fromLtrb_eq
#print axioms Resvg.Props.C02.C02_fit_none_iff_disjoint
#print axioms Resvg.Props.C02.C02_layer_bounded
#print axioms Resvg.Props.C02.C02_max_box
#print axioms Resvg.Props.C02.C02_layer_no_panic
#print axioms Resvg.Props.C02.inSize_region
#print axioms Resvg.Props.C02.C02_sizes_agree
#print axioms Resvg.Props.C02.C02_fix_conservative
#print axioms Resvg.Props.C02.C02_old_sizes_agree_partial
#print axioms Resvg.Props.C02.C02_old_sizes_agree_false
#print axioms Resvg.Props.C02.C02_tile_bounded_false
#print axioms Resvg.Props.C02.C02_tile_bounded_partial
#print axioms Resvg.Props.C02.C02_octaves_bounded
