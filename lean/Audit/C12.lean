import Resvg.Props.C12
#print axioms Resvg.Props.C12.min_le_l
#print axioms Resvg.Props.C12.le_max_l
#print axioms Resvg.Props.C12.contains_refl
#print axioms Resvg.Props.C12.contains_trans
#print axioms Resvg.Props.C12.expand_contains
#print axioms Resvg.Props.C12.fold_contains_acc
#print axioms Resvg.Props.C12.fold_contains_child
#print axioms Resvg.Props.C12.C12_group_box_contains_children
#print axioms Resvg.Props.C12.mul_between
#print axioms Resvg.Props.C12.min4_le
#print axioms Resvg.Props.C12.le_max4
#print axioms Resvg.Props.C12.affine_ge_corner
#print axioms Resvg.Props.C12.affine_le_corner
#print axioms Resvg.Props.C12.C12_transformed_box_contains_image
#print axioms Resvg.Props.C12.C12_abs_transform_is_product
#print axioms Resvg.Props.C12.C12_abs_box_contains_painted_point
