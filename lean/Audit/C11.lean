import Resvg.Props.C11
#print axioms Resvg.Props.C11.other_is_junk
#print axioms Resvg.Props.C11.foreign_is_junk
#print axioms Resvg.Props.C11.unknown_is_junk
#print axioms Resvg.Props.C11.C11_junk_node
#print axioms Resvg.Props.C11.C11_junk_invisible_partial
#print axioms Resvg.Props.C11.C11_text_junk_invisible
#print axioms Resvg.Props.C11.C11_junk_attr_invisible
#print axioms Resvg.Props.C11.C11_defs_not_converted
#print axioms Resvg.Props.C11.C11_converted_are_exactly
