import Resvg.Props.C09
#print axioms Resvg.Props.C09.swap_dropLast
#print axioms Resvg.Props.C09.insert_eq_spec
#print axioms Resvg.Props.C09.find_set_self
#print axioms Resvg.Props.C09.find_set_other
#print axioms Resvg.Props.C09.findIdx_find
#print axioms Resvg.Props.C09.findIdx_none_find
#print axioms Resvg.Props.C09.lookup_setOrAppend
#print axioms Resvg.Props.C09.C09_lookup_is_winner
#print axioms Resvg.Props.C09.winner_important_sticks
#print axioms Resvg.Props.C09.winner_last_when_none_important
#print axioms Resvg.Props.C09.C09_attr_eq_decl
#print axioms Resvg.Props.C09.C09_order_irrelevant
#print axioms Resvg.Props.C09.C09_inherit_eq_ancestor
#print axioms Resvg.Props.C09.C09_inherit_eq_parent
#print axioms Resvg.Props.C09.C09_inherit_supported
#print axioms Resvg.Props.C09.C09_units_equiv
