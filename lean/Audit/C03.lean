import Resvg.Props.C03
#print axioms Resvg.Props.C03.nodup_subset_length
#print axioms Resvg.Props.C03.nodup_lt_length
#print axioms Resvg.Props.C03.collect_bounded
#print axioms Resvg.Props.C03.C03_href_iter_terminates
#print axioms Resvg.Props.C03.C03_href_iter_old_diverges
#print axioms Resvg.Props.C03.sumOpt_isSome
#print axioms Resvg.Props.C03.visit_isSome
#print axioms Resvg.Props.C03.C03_neutralised
#print axioms Resvg.Props.C03.C03_old_diverges
#print axioms Resvg.Props.C03.C03_guards_present
#print axioms Resvg.Props.C03.C03_recursive_pattern_rewrite_safe
#print axioms Resvg.Props.C03.C03_inherited_search_breaks_rewrite
