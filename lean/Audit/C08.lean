import Resvg.Props.C08
#print axioms Resvg.Props.C08.roundHalfAway_close
#print axioms Resvg.Props.C08.C08_roundAt_close
#print axioms Resvg.Props.C08.C08_integers_exact
#print axioms Resvg.Props.C08.C08_large_integer_saturates
