import Resvg.Props.C08
#print axioms Resvg.Props.C08.roundHalfAway_close
#print axioms Resvg.Props.C08.C08_roundAt_close
#print axioms Resvg.Props.C08.roundHalfAway_int
#print axioms Resvg.Props.C08.C08_fixed_point
#print axioms Resvg.Props.C08.C08_second_round_trip_exact
#print axioms Resvg.Props.C08.C08_integers_exact
#print axioms Resvg.Props.C08.C08_old_large_integer_saturates
#print axioms Resvg.Props.C08.C08_pow_table_is_model
#print axioms Resvg.Props.C08.hex_pair_round_trip
#print axioms Resvg.Props.C08.C08_color_round_trip
#print axioms Resvg.Props.C08.C08_color_table_is_model
