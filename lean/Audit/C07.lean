import Resvg.Props.C07
#print axioms Resvg.Props.C07.wfAtt_cons_other
#print axioms Resvg.Props.C07.decodeAtt_cons_other
#print axioms Resvg.Props.C07.writeAttrValue_cons
#print axioms Resvg.Props.C07.C07_attr_wellformed
#print axioms Resvg.Props.C07.C07_attr_roundtrip
#print axioms Resvg.Props.C07.C07_old_writer_illformed
#print axioms Resvg.Props.C07.wfText_cons_other
#print axioms Resvg.Props.C07.writeTextValue_cons
#print axioms Resvg.Props.C07.C07_text_wellformed
#print axioms Resvg.Props.C07.C07_references_resolve_partial
#print axioms Resvg.Props.C07.C07_escape_attr_source_is_model
#print axioms Resvg.Props.C07.wfAtt_safe
#print axioms Resvg.Props.C07.hexDigit_safe
#print axioms Resvg.Props.C07.C07_color_wellformed
