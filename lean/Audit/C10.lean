import Resvg.Props.C10
#print axioms Resvg.Props.C10.C10_transform_monoid
#print axioms Resvg.Props.C10.C10_origin
#print axioms Resvg.Props.C10.C10_use_transform
#print axioms Resvg.Props.C10.C10_use_viewbox_transform
#print axioms Resvg.Props.C10.C10_rect_radii_auto
#print axioms Resvg.Props.C10.C10_rect_radii_clamped
#print axioms Resvg.Props.C10.C10_rect_radii_kept
#print axioms Resvg.Props.C10.C10_switch_first
#print axioms Resvg.Props.C10.C10_switch_none
#print axioms Resvg.Props.C10.C10_a_is_g
#print axioms Resvg.Props.C10.C10_own_group_once
#print axioms Resvg.Props.C10.C10_nested_svg_effects_once
#print axioms Resvg.Props.C10.C10_old_nested_svg_twice
