-- Root of the library: every property file (which pulls in the models it is about).
import Resvg.Props.C01
import Resvg.Props.C02
import Resvg.Props.C03
import Resvg.Props.C04
import Resvg.Props.C05
import Resvg.Props.C07
import Resvg.Props.C08
import Resvg.Props.C09
import Resvg.Props.C10
import Resvg.Props.C11
import Resvg.Props.C12
import Resvg.Props.C13
import Resvg.Props.C14
import Resvg.Props.C15
import Resvg.Props.C16
import Resvg.Props.C17
import Resvg.Props.C18
