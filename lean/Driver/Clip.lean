import Driver.Util
import Resvg.Render.Clip
namespace Driver
open Resvg.Render

def parseRatTok? (s : String) : Option Rat :=
  match s.splitOn "/" with
  | [a] => a.toInt?.map fun n => (n : Rat)
  | [a, b] => do
    let a ← a.toInt?; let b ← b.toNat?
    if b == 0 then none else pure ((a : Rat) / (b : Rat))
  | _ => none

def parseStep? (s : String) : Option ClipStep :=
  match s.splitOn ":" with
  | ["p", c] => (parseRatTok? c).map ClipStep.plain
  | ["g", a, f] => do pure (ClipStep.clippedGroup (← parseRatTok? a) (← parseRatTok? f))
  | _ => none

/-- `clipf nested step…` → the resulting alpha of an opaque target pixel, 0..255 -/
def handleClip (args : List String) : String :=
  match args with
  | n :: steps =>
    match parseRatTok? n, allSome (steps.map parseStep?) with
    | some n, some st =>
      let f := clipFactor n st
      toString ((f * 255 + 1 / 2).floor)
    | _, _ => "bad-op"
  | _ => "bad-op"

end Driver
