import Driver.Util
import Resvg.Render.Clip
namespace Driver
open Resvg.Render

def parseRatTok? (s : String) : Option Rat :=
  match s.splitOn "/" with
  | [a] => a.toInt?.map fun n => (n : Rat)
  | [a, b] => do
    let a ← a.toInt?; let b ← b.toNat?
    if b == 0 then none else pure ((a : Rat) / (b : Rat))
  | _ => none

/-- `p:c` a shape, `g:s:f` a shape with its own clip path, `n:s:f1:f2` a shape with its own clip path
    instantiated by a group that has a clip path too -/
def parseNode? (s : String) : Option ClipNode :=
  match s.splitOn ":" with
  | ["p", c] => (parseRatTok? c).map ClipNode.plain
  | ["g", a, f] => do pure (ClipNode.group (some (← parseRatTok? f)) [.plain (← parseRatTok? a)])
  | ["n", a, f1, f2] => do
    pure (ClipNode.group (some (← parseRatTok? f2)) [.group (some (← parseRatTok? f1)) [.plain (← parseRatTok? a)]])
  | _ => none

/-- `clipf nested node…` → the resulting alpha of an opaque target pixel, 0..255 -/
def handleClip (args : List String) : String :=
  match args with
  | n :: nodes =>
    match parseRatTok? n, allSome (nodes.map parseNode?) with
    | some n, some st =>
      let f := clipFactorTree true n st
      toString ((f * 255 + 1 / 2).floor)
    | _, _ => "bad-op"
  | _ => "bad-op"

end Driver
