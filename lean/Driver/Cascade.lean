import Driver.Util
import Resvg.SvgTree.Cascade
namespace Driver
open Resvg Resvg.SvgTree

def unhex? (s : String) : Option String :=
  if s == "-" then some "" else
  let cs := s.toList
  if cs.length % 2 != 0 then none else
  let rec go : List Char → List UInt8 → Option (List UInt8)
    | a :: b :: rest, acc =>
      match hexDigit? a, hexDigit? b with
      | some x, some y => go rest (UInt8.ofNat (x * 16 + y) :: acc)
      | _, _ => none
    | [], acc => some acc.reverse
    | _, _ => none
  match go cs [] with
  | some bytes => String.fromUTF8? (ByteArray.mk bytes.toArray)
  | none => none

def hexStr (s : String) : String :=
  if s.isEmpty then "-" else
  String.join (s.toUTF8.toList.map fun b => hexOf b.toNat 2)

/-- `name=hex:imp` -/
def parseAttrTok? (t : String) : Option Attr :=
  match t.splitOn "=" with
  | [n, rest] => match rest.splitOn ":" with
    | [v, i] => do
      let v ← unhex? v
      pure ⟨n, v, i == "1"⟩
    | _ => none
  | _ => none

/-- `[a=hex:imp,b=hex:imp]` -/
def parseAttrList? (t : String) : Option (List Attr) :=
  if !(t.startsWith "[" && t.endsWith "]") then none else
  let inner : String := String.ofList ((t.toList.drop 1).dropLast)
  if inner.isEmpty then some [] else
  allSome ((inner.splitOn ",").map parseAttrTok?)

def showAttrList (l : List Attr) : String :=
  "[" ++ ",".intercalate (l.map fun a => s!"{a.name}={hexStr a.value}:{if a.important then 1 else 0}") ++ "]"

def takeN? {α} (n : Nat) (l : List α) : Option (List α × List α) :=
  if l.length < n then none else some (l.take n, l.drop n)

def handleCascade (op : String) (args : List String) : String :=
  match op, args with
  | "casc", tag :: nanc :: rest =>
    -- casc tag nanc anc… nxml (name=hex)… ndecl (name=hex:imp)…
    match nanc.toNat? with
    | none => "bad-op"
    | some na =>
      match takeN? na rest with
      | none => "bad-op"
      | some (ancT, rest) =>
        match allSome (ancT.map parseAttrList?), rest with
        | some ancs, nx :: rest =>
          match nx.toNat? with
          | none => "bad-op"
          | some nxn =>
            match takeN? nxn rest with
            | none => "bad-op"
            | some (xmlT, rest) =>
              let xml? := allSome (xmlT.map fun t => match t.splitOn "=" with
                | [n, v] => (unhex? v).map fun v => (n, v)
                | _ => none)
              match xml?, rest with
              | some xml, nd :: rest =>
                match nd.toNat?, allSome (rest.map parseAttrTok?) with
                | some ndn, some ds =>
                  if ds.length != ndn then "bad-op" else
                  showAttrList (cascadeElement tag ancs xml (ds.map fun a => (a.name, a.value, a.important)))
                | _, _ => "bad-op"
              | _, _ => "bad-op"
        | _, _ => "bad-op"
  | "expand", [n, v, i] =>
    match unhex? n, unhex? v with
    | some n, some v =>
      joinSp ((expandDeclaration n v (i == "1")).map fun d => s!"{d.1}={hexStr d.2.1}:{if d.2.2 then 1 else 0}")
    | _, _ => "bad-op"
  | "attrclass", [n] =>
    s!"known={if isKnownAttr n then 1 else 0} pres={if isPresentation n then 1 else 0} inh={if isInheritable n then 1 else 0} allows={if allowsInherit n then 1 else 0}"
  | "elemclass", [n] =>
    s!"known={if Generated.elementNames.contains n then 1 else 0} graphic={if Generated.graphicElements.contains n then 1 else 0}"
  | "findattr", n :: chain =>
    match allSome (chain.map parseAttrList?) with
    | some ch => match findAttribute ch n with
      | some a => s!"{hexStr a.value}"
      | none => "none"
    | none => "bad-op"
  | _, _ => "bad-op"

end Driver
