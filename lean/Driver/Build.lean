import Driver.Util
import Driver.Cascade
import Resvg.SvgTree.Build
namespace Driver
open Resvg Resvg.SvgTree

structure Flat where
  depth : Nat
  nid : Nat
  kind : String
  name : String
  attrs : List XAttr

def nsOf : String → String
  | "n" => "" | "s" => "svg" | "x" => "xlink" | "m" => "xml" | _ => "other"

def parseFlat? (t : String) : Option Flat :=
  match t.splitOn "|" with
  | [d, n, k, name, attrs] => do
    let d ← d.toNat?
    let n ← n.toNat?
    let as ← if attrs == "-" then some [] else allSome ((attrs.splitOn ",").map fun a =>
      match a.splitOn "=" with
      | [lhs, v] => match lhs.splitOn ":" with
        | [ns, nm] => (unhex? v).map fun v => ((nsOf ns, nm, v) : XAttr)
        | _ => none
      | _ => none)
    pure ⟨d, n, k, name, as⟩
  | _ => none

/-- rebuild the tree from a pre-order list with depths: returns (node, remaining) -/
partial def unflatten : List Flat → Option (Xml × List Flat)
  | [] => none
  | f :: rest =>
    let rec kids (acc : List Xml) (r : List Flat) : List Xml × List Flat :=
      match r with
      | g :: _ =>
        if g.depth == f.depth + 1 then
          match unflatten r with
          | some (c, r') => kids (acc ++ [c]) r'
          | none => (acc, r)
        else (acc, r)
      | [] => (acc, [])
    let (cs, r) := kids [] rest
    if f.kind == "t" then some (.other f.nid, r)
    else some (.elem f.nid (f.kind == "s") f.name f.attrs cs, r)

def handleBuild (args : List String) : String :=
  match allSome (args.map parseFlat?) with
  | none => "bad-op"
  | some flats =>
    match unflatten flats with
    | some (doc, []) =>
      match build doc with
      | .error _ => "err nodes-limit"
      | .ok out =>
        "ok " ++ " ; ".intercalate (out.nodes.map fun n => s!"{n.1} {n.2.1} {showAttrList n.2.2}")
    | _ => "bad-op"

end Driver
