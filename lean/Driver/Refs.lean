import Driver.Util
import Resvg.Tree.Collect
import Resvg.Convert.FilterInputs
import Resvg.Writer.Escape
import Resvg.Writer.Color
import Resvg.Writer.Num
namespace Driver
open Resvg.Tree Resvg.Convert

def parseCsv? (s : String) : Option (List Nat) :=
  if s == "-" then some [] else allSome ((s.splitOn ",").map (·.toNat?))

mutual
/-- node := `n <refs> <unseen> [ node* ] [ node* ]` -/
partial def parseNd : List String → Option (Nd × List String)
  | "n" :: refs :: unseen :: "[" :: rest =>
    match parseCsv? refs, parseCsv? unseen, parseNdL rest with
    | some r, some u, some (subs, "[" :: rest2) =>
      match parseNdL rest2 with
      | some (children, rest3) => some (.mk r u subs children, rest3)
      | none => none
    | _, _, _ => none
  | _ => none
/-- nodes up to and including the closing `]` -/
partial def parseNdL : List String → Option (NdL × List String)
  | "]" :: rest => some (.nil, rest)
  | toks =>
    match parseNd toks with
    | some (n, rest) =>
      match parseNdL rest with
      | some (l, rest2) => some (.cons n l, rest2)
      | none => none
    | none => none
end

def showInp : Inp → String
  | .sourceGraphic => "SG"
  | .sourceAlpha => "SA"
  | .ref n => "R:" ++ hexStr n
where hexStr (s : String) : String :=
  String.join (s.toUTF8.toList.map fun b => hexOf b.toNat 2)

def optStr? (s : String) : Option (Option String) :=
  if s == "~" then some none else (unhexStr? (s.drop 1).toString).map some
where unhexStr? (h : String) : Option String :=
  let cs := h.toList
  let rec go : List Char → List UInt8 → Option (List UInt8)
    | [], acc => some acc.reverse
    | a :: b :: rest, acc =>
      match hexDigit? a, hexDigit? b with
      | some x, some y => go rest (UInt8.ofNat (x * 16 + y) :: acc)
      | _, _ => none
    | _, _ => none
  match go cs [] with
  | some bytes => String.fromUTF8? (ByteArray.mk bytes.toArray)
  | none => none

def handleRefs (op : String) (args : List String) : String :=
  match op, args with
  | "collect", kind :: "[" :: rest =>
    match parseNdL rest with
    | some (t, []) =>
      let out := if kind == "paint" then collectPaintL t [] else collectL t []
      if out.isEmpty then "-" else ",".intercalate (out.map toString)
    | _ => "bad-op"
  | "finputs", prims =>
    -- each primitive: `<result>|<in>,<in>,…` ; absent = `~`, present = `=` followed by hex bytes
    let parsed := allSome (prims.map fun p =>
      match p.splitOn "|" with
      | [res, ins] =>
        match optStr? res, (if ins.isEmpty then some [] else allSome ((ins.splitOn ",").map optStr?)) with
        | some r, some is => some ((is, r) : PrimIn)
        | _, _ => none
      | _ => none)
    match parsed with
    | some ps =>
      joinSp ((convertFilter ps).map fun (ins, r) =>
        showInp.hexStr r ++ "|" ++ ",".intercalate (ins.map showInp))
    | none => "bad-op"
  | "writenum", [p, bits] =>
    match p.toNat?, parseF32? bits with
    | some p, some num => showBits (Resvg.F32.rnd (Resvg.Writer.writeNumValue Resvg.F32.rnd p num))
    | _, _ => "bad-op"
  | "writecolor", [r, g, b] =>
    match r.toNat?, g.toNat?, b.toNat? with
    | some r, some g, some b => String.ofList (Resvg.Writer.writeColor r g b)
    | _, _, _ => "bad-op"
  | "parsecolor", [hex] =>
    match optStr? ("=" ++ hex) with
    | some (some str) =>
      match Resvg.Writer.parseHexColor str.toList with
      | some (r, g, b) => s!"{r} {g} {b}"
      | none => "none"
    | _ => "bad-op"
  | "esctext", [hex] =>
    match optStr? ("=" ++ hex) with
    | some (some str) => showInp.hexStr (String.ofList (Resvg.Writer.writeTextValue str.toList))
    | _ => "bad-op"
  | "escattr", [q, hex] =>
    -- q: `d` (double quotes) or `s` (single quotes); hex: UTF-8 bytes of the string
    match optStr? ("=" ++ hex) with
    | some (some str) =>
      let qc := if q == "s" then '\'' else '"'
      showInp.hexStr (String.ofList (Resvg.Writer.writeAttrValue qc str.toList))
    | _ => "bad-op"
  | _, _ => "bad-op"

end Driver
