import Driver.Pixel
import Driver.Geom
import Driver.Render
import Driver.Cascade
import Driver.Links
import Driver.Build
import Driver.Structure
import Driver.Clip
import Driver.Values
import Driver.Refs
import Driver.BBox
import Driver.Export
import Driver.Cli
open Driver

def step (line : String) : String :=
  match line.trimAscii.toString.splitOn " " with
  | "px" :: args => handlePx args
  | "fit" :: args => handleRender "fit" args
  | "layer" :: args => handleRender "layer" args
  | "layerts" :: args => handleRender "layerts" args
  | "maxbbox" :: args => handleRender "maxbbox" args
  | "childmax" :: args => handleRender "childmax" args
  | "sizebook" :: args => handleRender "sizebook" args
  | "tile" :: args => handleRender "tile" args
  | "light" :: args => handleRender "light" args
  | "hrefchain" :: args => handleLinks "hrefchain" args
  | "enterdef" :: args => handleLinks "enterdef" args
  | "origints" :: args => handleStructure "origints" args
  | "origintsu" :: args => handleStructure "origintsu" args
  | "usets" :: args => handleStructure "usets" args
  | "usesym" :: args => handleStructure "usesym" args
  | "rxry" :: args => handleStructure "rxry" args
  | "rxryobs" :: args => handleStructure "rxryobs" args
  | "switch" :: args => handleStructure "switch" args
  | "clipf" :: args => handleClip args
  | "obbgrad" :: args => handleBBox "obbgrad" args
  | "obbclip" :: args => handleBBox "obbclip" args
  | "obbrect" :: args => handleBBox "obbrect" args
  | "fitto" :: args => handleCli "fitto" args
  | "exportplan" :: args => handleCli "exportplan" args
  | "exportts" :: args => handleExport "exportts" args
  | "canvas" :: args => handleExport "canvas" args
  | "findid" :: args => handleExport "findid" args
  | "gbox" :: args => handleBBox "gbox" args
  | "rectts" :: args => handleBBox "rectts" args
  | "abst" :: args => handleBBox "abst" args
  | "collect" :: args => handleRefs "collect" args
  | "writenum" :: args => handleRefs "writenum" args
  | "esctext" :: args => handleRefs "esctext" args
  | "writecolor" :: args => handleRefs "writecolor" args
  | "parsecolor" :: args => handleRefs "parsecolor" args
  | "escattr" :: args => handleRefs "escattr" args
  | "finputs" :: args => handleRefs "finputs" args
  | "stops" :: args => handleValues "stops" args
  | "dash" :: args => handleValues "dash" args
  | "miter" :: args => handleValues "miter" args
  | "units" :: args => handleValues "units" args
  | "build" :: args => handleBuild args
  | "casc" :: args => handleCascade "casc" args
  | "expand" :: args => handleCascade "expand" args
  | "attrclass" :: args => handleCascade "attrclass" args
  | "elemclass" :: args => handleCascade "elemclass" args
  | "findattr" :: args => handleCascade "findattr" args
  | "vb2ts" :: args => handleGeom "vb2ts" args
  | "nestedvb" :: args => handleGeom "nestedvb" args
  | "imagefit" :: args => handleGeom "imagefit" args
  | "concat" :: args => handleGeom "concat" args
  | "svgsize" :: args => handleGeom "svgsize" args
  | "fontsize" :: args => handleGeom "fontsize" args
  | _ => "bad-op"

partial def loop (h : IO.FS.Stream) (out : IO.FS.Stream) : IO Unit := do
  let line ← h.getLine
  if line.isEmpty then return ()
  out.putStrLn (step line)
  loop h out

def main : IO Unit := do
  let out ← IO.getStdout
  loop (← IO.getStdin) out
  out.flush
