import Driver.Util
import Resvg.SvgTree.Links
import Resvg.Convert.Skeleton
namespace Driver
open Resvg.SvgTree Resvg.Convert

/-- `hrefchain n start max t0 t1 … t(n-1)` with `ti` = target index or `-` → yielded indices, then `end` if the
    iterator stopped by itself within `max` calls -/
def handleLinks (op : String) (args : List String) : String :=
  match op, args with
  | "hrefchain", n :: start :: mx :: targets =>
    match n.toNat?, start.toNat?, mx.toNat? with
    | some n, some start, some mx =>
      if targets.length != n then "bad-op" else
      let tbl : List (Option Nat) := targets.map fun t => if t == "-" then none else t.toNat?
      let href : Nat → Option Nat := fun i => (tbl.getD i none)
      let out := HrefIter.collect href mx (HrefIter.start start)
      let ended := out.length < mx
      joinSp (out.map toString ++ (if ended then ["end"] else []))
    | _, _, _ => "bad-op"
  | "enterdef", e :: st =>
    match e.toNat?, allSome (st.map String.toNat?) with
    | some e, some st => match enterDef st e with
      | none => "cut"
      | some _ => "push"
    | _, _ => "bad-op"
  | _, _ => "bad-op"

end Driver
