import Driver.Util
import Driver.Geom
import Resvg.Geom.BBox
import Resvg.Convert.Bbox
namespace Driver
open Resvg Resvg.Geom

def parseLtrb? (s : String) : Option (LTRB Float32) :=
  match allSome ((s.splitOn ",").map parseHw?) with
  | some [l, t, r, b] => some ⟨l, t, r, b⟩
  | _ => none

def parseTsCsv? (s : String) : Option (Transform Float32) :=
  match allSome ((s.splitOn ",").map parseHw?) with
  | some [sx, ky, kx, sy, tx, ty] => some ⟨sx, ky, kx, sy, tx, ty⟩
  | _ => none

def showLtrb (r : LTRB Float32) : String :=
  let z (f : Float32) : String := if f == 0 then "00000000" else showHw f
  s!"{z r.l} {z r.t} {z r.r} {z r.b}"

def handleBBox (op : String) (args : List String) : String :=
  match op, args with
  | "gbox", children =>
    -- child := `l,t,r,b` or `l,t,r,b@sx,ky,kx,sy,tx,ty`, or `none` for a group with nothing in it
    let cs := allSome (children.map fun c =>
      if c == "none" then some ({ box := ⟨Flt.ofNat 0, Flt.ofNat 0, Flt.ofNat 0, Flt.ofNat 0⟩, groupTs := none, hasBox := false } : ChildBox Float32) else
      match c.splitOn "@" with
      | [b] => (parseLtrb? b).map fun b => ({ box := b, groupTs := none } : ChildBox Float32)
      | [b, t] => match parseLtrb? b, parseTsCsv? t with
        | some b, some t => some { box := b, groupTs := some t }
        | _, _ => none
      | _ => none)
    match cs with
    | some cs => showLtrb (groupBox (Float32.ofBits 0x7f7fffff) cs)
    | none => "bad-op"
  | "rectts", [b, t] =>
    match parseLtrb? b, parseTsCsv? t with
    | some b, some t => showLtrb (b.transform t)
    | _, _ => "bad-op"
  | "abst", root :: chain =>
    match parseTsCsv? root, allSome (chain.map parseTsCsv?) with
    | some r, some ch => showTs (absTransform r ch)
    | _, _ => "bad-op"
  | "obbgrad", [t, b] =>
    match parseTsCsv? t, parseLtrb? b with
    | some t, some b => showTs (Resvg.Convert.gradientToUser t b)
    | _, _ => "bad-op"
  | "obbclip", [t, b] =>
    match parseTsCsv? t, parseLtrb? b with
    | some t, some b => showTs (Resvg.Convert.clipToUser t b)
    | _, _ => "bad-op"
  | "obbrect", [x, y, w, h, b] =>
    match parseHw? x, parseHw? y, parseHw? w, parseHw? h, parseLtrb? b with
    | some x, some y, some w, some h, some b =>
      -- the fractional rectangle is itself a stored `NonZeroRect` (left/top/right/bottom)
      let src := LTRB.fromXywh x y w h
      let r := Resvg.Convert.rectToUser src.x src.y src.width src.height b
      let z (f : Float32) : String := if f == 0 then "00000000" else showHw f
      -- the result is stored as left/top/right/bottom (`NonZeroRect::from_xywh`); the accessors give
      -- `width() = right - left`
      let st := LTRB.fromXywh r.1 r.2.1 r.2.2.1 r.2.2.2
      s!"{z st.x} {z st.y} {z st.width} {z st.height}"
    | _, _, _, _, _ => "bad-op"
  | _, _ => "bad-op"

end Driver
