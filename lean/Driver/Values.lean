import Driver.Util
import Driver.Geom
import Resvg.Convert.Stops
import Resvg.Convert.SvgSize
namespace Driver
open Resvg Resvg.Convert

def showHwZ (f : Float32) : String := if f == 0 then "00000000" else showHw f

def showBitsZ (q : Rat) : String := if q == 0 then "00000000" else showBits q

def handleValues (op : String) (args : List String) : String :=
  match op, args with
  | "stops", rest =>
    match allSome (rest.map parseHw?) with
    | some offs => joinSp ((normalizeOffsets offs).map showHwZ)
    | none => "bad-op"
  | "dash", rest =>
    match allSome (rest.map parseHw?) with
    | some d =>
      match convDashArray d (fun x => x.toBits >>> 31 == 1) with
      | none => "none"
      | some l => joinSp (l.map showHw)
    | none => "bad-op"
  | "miter", [m] =>
    match parseHw? m with
    | some m => showHw (clampMiter m)
    | none => "bad-op"
  | "units", [dpi, fs, vw, vh, n1, u1, n2, u2] =>
    -- the same `convertLength` (SvgSize.lean) the C17 theorems are about, at f32 rounding
    match parseF32? dpi, parseF32? fs, parseF32? vw, parseF32? vh, parseF32? n1, parseUnit? u1, parseF32? n2, parseUnit? u2 with
    | some dpi, some fs, some vw, some vh, some n1, some u1, some n2, some u2 =>
      let env : LenEnv := { dpi := dpi, fontSize := fs }
      s!"{showBitsZ (convertLength F32.rnd ⟨n1, u1⟩ vw env)} {showBitsZ (convertLength F32.rnd ⟨n2, u2⟩ vh env)}"
    | _, _, _, _, _, _, _, _ => "bad-op"
  | _, _ => "bad-op"

end Driver
