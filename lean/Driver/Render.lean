import Driver.Util
import Driver.Geom
import Resvg.Render.Layer
import Resvg.Render.SizeBook
import Resvg.Geom.Transform
import Resvg.Render.Light
namespace Driver
open Resvg Resvg.Render Resvg.Geom

def showIR (r : IntRect) : String := s!"{r.x} {r.y} {r.w} {r.h}"

def parseIR? : List String → Option (IntRect × List String)
  | x :: y :: w :: h :: rest => do
    let x ← x.toInt?; let y ← y.toInt?; let w ← w.toInt?; let h ← h.toInt?
    pure (⟨x, y, w, h⟩, rest)
  | _ => none

def parseFIn? (s : String) : Option FIn :=
  if s = "s" then some .source
  else if s.startsWith "r" then (s.drop 1).toNat?.map FIn.ref
  else none

def parsePrim? (s : String) : Option FPrim :=
  match s.splitOn ":" with
  | ["flood"] => some .flood
  | ["image"] => some .image
  | ["turbulence"] => some .turbulence
  | ["blend", a, b] => do pure (.blend (← parseFIn? a) (← parseFIn? b))
  | ["composite", a, b] => do pure (.composite false (← parseFIn? a) (← parseFIn? b))
  | ["arithmetic", a, b] => do pure (.composite true (← parseFIn? a) (← parseFIn? b))
  | ["displacementmap", a, b] => do pure (.displacement (← parseFIn? a) (← parseFIn? b))
  | ["dropshadow", a] => do pure (.dropShadow (← parseFIn? a))
  | ["gaussianblur", a] => do pure (.blur (← parseFIn? a))
  | ["offset", a] => do pure (.offset (← parseFIn? a))
  | ["tile", a] => do pure (.tile (← parseFIn? a))
  | ["componenttransfer", a] => do pure (.componentTransfer (← parseFIn? a))
  | ["colormatrix", a] => do pure (.colorMatrix (← parseFIn? a))
  | ["convolvematrix", a] => do pure (.convolve (← parseFIn? a))
  | ["morphology", a] => do pure (.morphology (← parseFIn? a))
  | ["diffuselighting", a] => do pure (.diffuse (← parseFIn? a))
  | ["specularlighting", a] => do pure (.specular (← parseFIn? a))
  | ["merge"] => some (.merge [])
  | ["merge", ins] => do pure (.merge (← allSome ((ins.splitOn ",").map parseFIn?)))
  | _ => none

/-- run the size book but keep what was computed before an assertion fires -/
def sizeBookUpTo (region src : Sz) : List FPrim → List Sz → List Sz × Option String
  | [], acc => (acc, none)
  | p :: ps, acc =>
    match primSize region src acc p with
    | .error e => (acc, some e)
    | .ok s => sizeBookUpTo region src ps (acc ++ [s])

def handleRender (op : String) (args : List String) : String :=
  match op, args with
  | "fit", rest =>
    match parseIR? rest with
    | some (r, rest) => match parseIR? rest with
      | some (b, []) => match fitToRect r b with
        | some q => "some " ++ showIR q
        | none => "none"
      | _ => "bad-op"
    | none => "bad-op"
  | "layer", x :: y :: w :: h :: nf :: rest =>
    match parseF32? x, parseF32? y, parseF32? w, parseF32? h, parseIR? rest with
    | some x, some y, some w, some h, some (mb, []) =>
      match layerRect x y w h (nf == "1") mb with
      | .ok (some r) => "ok " ++ showIR r
      | .ok none => "none"
      | .error e => "panic:" ++ e
    | _, _, _, _, _ => "bad-op"
  | "layerts", bx :: by_ :: ix :: iy :: rest =>
    -- shift_ts: dx = bbox.x - (bbox.x - ibbox.x as f32); local = translate(-dx,-dy).pre_concat(outer)
    match parseHw? bx, parseHw? by_, ix.toInt?, iy.toInt?, parseTs? rest with
    | some bx, some by_, some ix, some iy, some (outer, []) =>
      let dx := bx - (bx - Float32.ofInt ix)
      let dy := by_ - (by_ - Float32.ofInt iy)
      showTs ((Transform.fromTranslate (-dx) (-dy)).preConcat outer)
    | _, _, _, _, _ => "bad-op"
  | "childmax", rest =>
    match parseIR? rest with
    | some (mb, rest) => match parseIR? rest with
      | some (ib, []) => showIR (childMaxBox mb ib)
      | _ => "bad-op"
    | none => "bad-op"
  | "maxbbox", [w, h] =>
    match w.toInt?, h.toInt? with
    | some w, some h => match maxBBox w h with
      | .ok r => "ok " ++ showIR r
      | .error e => "panic:" ++ e
    | _, _ => "bad-op"
  | "sizebook", rw :: rh :: sw :: sh :: upto :: prims =>
    match rw.toNat?, rh.toNat?, sw.toNat?, sh.toNat?, upto.toNat?, allSome (prims.map parsePrim?) with
    | some rw, some rh, some sw, some sh, some upto, some ps =>
      let (sizes, err) := sizeBookUpTo (rw, rh) (sw, sh) ps []
      let shown := joinSp ((sizes.take upto).map fun s => s!"{s.1}x{s.2}")
      match err with
      | some e => if sizes.length ≤ upto then (s!"{shown} panic:{e}").trimAscii.toString else shown
      | none => shown
    | _, _, _, _, _, _ => "bad-op"
  | "light", kind :: rest =>
    match parseTs? rest with
    | some (ts, [rx, ry, px, py]) =>
      match rx.toInt?, ry.toInt?, parseHw? px, parseHw? py with
      | some rx, some ry, some px, some py =>
        let k := if kind == "spot" then LightKind.spot else LightKind.point
        let r := transformLightXY k ts (Float32.ofInt rx) (Float32.ofInt ry) (px, py)
        s!"{showHw r.1} {showHw r.2}"
      | _, _, _, _ => "bad-op"
    | _ => "bad-op"
  | "tile", [a, b] =>
    match parseF32? a, parseF32? b with
    | some a, some b => match patternTile a b with
      | some t => s!"some {t.1} {t.2}"
      | none => "none"
    | _, _ => "bad-op"
  | _, _ => "bad-op"

end Driver
