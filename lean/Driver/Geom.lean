import Driver.Util
import Resvg.Geom.ViewBox
import Resvg.Geom.Transform
import Resvg.Convert.SvgSize
namespace Driver
open Resvg Resvg.Geom Resvg.Convert

/-- hardware f32 from 8 hex digits -/
def parseHw? (s : String) : Option Float32 := do
  let n ← parseHex? s
  pure (Float32.ofBits (UInt32.ofNat n))

/-- bits of a hardware f32 with the sign of zero cleared (canonical form) -/
def showHw (f : Float32) : String :=
  let b := f.toBits.toNat
  hexOf (if b = 0x80000000 then 0 else b)

def parseAlign? : String → Option Align
  | "none" => some .none
  | "xMinYMin" => some .xMinYMin | "xMidYMin" => some .xMidYMin | "xMaxYMin" => some .xMaxYMin
  | "xMinYMid" => some .xMinYMid | "xMidYMid" => some .xMidYMid | "xMaxYMid" => some .xMaxYMid
  | "xMinYMax" => some .xMinYMax | "xMidYMax" => some .xMidYMax | "xMaxYMax" => some .xMaxYMax
  | _ => none

def showTs (t : Transform Float32) : String :=
  joinSp [showHw t.sx, showHw t.ky, showHw t.kx, showHw t.sy, showHw t.tx, showHw t.ty]

def parseTs? : List String → Option (Transform Float32 × List String)
  | a :: b :: c :: d :: e :: f :: rest => do
    let a ← parseHw? a; let b ← parseHw? b; let c ← parseHw? c
    let d ← parseHw? d; let e ← parseHw? e; let f ← parseHw? f
    pure (⟨a, b, c, d, e, f⟩, rest)
  | _ => none

def vbTs (al : Align) (sl : Bool) (v : List Float32) : Option (Transform Float32) :=
  match v with
  | [vx, vy, vw, vh, W, H] =>
    -- the numbers are the parsed viewBox; usvg stores them through NonZeroRect::from_xywh
    let t := viewBoxRectToTransform al sl (LTRB.fromXywh vx vy vw vh) W H
    some (Transform.fromRow t.sx (Flt.ofNat 0) (Flt.ofNat 0) t.sy t.tx t.ty)
  | _ => none

def parseUnit? : String → Option LUnit
  | "none" => some .none | "em" => some .em | "ex" => some .ex | "px" => some .px
  | "in" => some .inch | "cm" => some .cm | "mm" => some .mm | "pt" => some .pt
  | "pc" => some .pc | "percent" => some .percent
  | _ => none

/-- `absent` or `<unit>:<f64 bits, 16 hex digits>` -/
def parseLen? (s : String) : Option (Option Length) :=
  if s = "absent" then some none else
  match s.splitOn ":" with
  | [u, n] => do
    let u ← parseUnit? u
    let b ← parseHex? n
    let q ← F32.decode64 (UInt64.ofNat b)
    pure (some ⟨q, u⟩)
  | _ => none

/-- show a rational that is meant to be an f32 value: bits, or `inf` when out of range -/
def showSoft (q : Rat) : String :=
  if q > F32.maxFinite ∨ q < -F32.maxFinite then "inf" else showBits q

def handleGeom (op : String) (args : List String) : String :=
  match op, args with
  | "vb2ts", al :: sl :: rest =>
    match parseAlign? al, allSome (rest.map parseHw?) with
    | some al, some v =>
      match vbTs al (sl == "slice") v with
      | some t => showTs t
      | none => "bad-op"
    | _, _ => "bad-op"
  | "nestedvb", al :: sl :: x :: y :: rest =>
    -- Transform::default().pre_translate(x, y).pre_concat(viewbox_ts), then identity.pre_concat(that)
    match parseAlign? al, parseHw? x, parseHw? y, allSome (rest.map parseHw?) with
    | some al, some x, some y, some v =>
      match vbTs al (sl == "slice") v with
      | some t =>
        let newTs := ((Transform.identity : Transform Float32).preTranslate x y).preConcat t
        showTs ((Transform.identity : Transform Float32).preConcat newTs)
      | none => "bad-op"
    | _, _, _, _ => "bad-op"
  | "imagefit", [al, sl, x, y, w, h, aw, ah] =>
    -- image.rs convert_inner: the transform of the image group for element rect (x y w h) and image size aw x ah
    match parseAlign? al, allSome ([x, y, w, h, aw, ah].map parseHw?) with
    | some al, some [x, y, w, h, aw, ah] =>
      match imageTransform al (sl == "slice") (LTRB.fromXywh x y w h) aw ah with
      | some t => showTs (Transform.fromRow t.sx (Flt.ofNat 0) (Flt.ofNat 0) t.sy t.tx t.ty)
      | none => "none"
    | _, _ => "bad-op"
  | "concat", rest =>
    match parseTs? rest with
    | some (a, rest) => match parseTs? rest with
      | some (b, []) => showTs (Transform.concat a b)
      | _ => "bad-op"
    | none => "bad-op"
  | "svgsize", [w, h, vb, dw, dh, dpi, fs] =>
    let vb? : Option (Option (Rat × Rat × Rat × Rat)) :=
      if vb = "novb" then some none else
      match allSome ((vb.splitOn ",").map parseF32?) with
      | some [a, b, c, d] => some (some (a, b, c, d))
      | _ => none
    match parseLen? w, parseLen? h, vb?, parseF32? dw, parseF32? dh, parseF32? dpi, parseF32? fs with
    | some w, some h, some vb, some dw, some dh, some dpi, some fs =>
      let (res, restore) := resolveSvgSize F32.rnd F32.rnd64 ⟨w, h, vb, dw, dh, ⟨dpi, fs⟩⟩
      match res with
      | some (rw, rh) => let _ := restore; s!"ok {showBits rw} {showBits rh}"
      | none => "err"
    | _, _, _, _, _, _, _ => "bad-op"
  | "fontsize", dpi :: dflt :: chain =>
    -- chain entries `<unit>:<f32 bits>` (the f64 -> f32 cast of the number is done by the harness)
    let items := allSome (chain.map fun c =>
      match c.splitOn ":" with
      | [u, b] => match parseUnit? u, parseF32? b with
        | some u, some n => some ({ number := n, unit := u } : Length)
        | _, _ => none
      | _ => none)
    match parseF32? dpi, parseF32? dflt, items with
    | some dpi, some d, some items => showBits (resolveFontSize F32.rnd dpi d items)
    | _, _, _ => "bad-op"
  | _, _ => "bad-op"

end Driver
