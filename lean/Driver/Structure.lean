import Driver.Util
import Driver.Geom
import Driver.Cascade
import Resvg.Convert.Structure
import Resvg.Convert.SvgSize
import Resvg.Convert.UseSize
namespace Driver
open Resvg Resvg.Geom Resvg.Convert

def optHw? (s : String) : Option (Option Float32) :=
  if s == "-" then some none else (parseHw? s).map some

def handleStructure (op : String) (args : List String) : String :=
  match op, args with
  | "origints", rest =>
    match parseTs? rest with
    | some (t, [dx, dy]) => match parseHw? dx, parseHw? dy with
      | some dx, some dy => showTs (resolveTransformOrigin t dx dy)
      | _, _ => "bad-op"
    | _ => "bad-op"
  | "origintsu", rest =>
    -- transform + transform-origin given as lengths: `<unit>:<bits>` ×2, then view-box w h, dpi, font-size
    match parseTs? rest with
    | some (t, [lx, ly, vw, vh, dpi, fs]) =>
      let len? (s : String) : Option Resvg.Convert.Length := match s.splitOn ":" with
        | [u, b] => match parseUnit? u, parseF32? b with
          | some u, some n => some { number := n, unit := u }
          | _, _ => none
        | _ => none
      match len? lx, len? ly, parseF32? vw, parseF32? vh, parseF32? dpi, parseF32? fs with
      | some lx, some ly, some vw, some vh, some dpi, some fs =>
        -- converter.rs `resolve_transform`: x against the view-box WIDTH, y against its HEIGHT
        let dx := Resvg.Convert.convertLength F32.rnd lx vw ⟨dpi, fs⟩
        let dy := Resvg.Convert.convertLength F32.rnd ly vh ⟨dpi, fs⟩
        showTs (resolveTransformOrigin t (Float32.ofBits (F32.encode dx)) (Float32.ofBits (F32.encode dy)))
      | _, _, _, _, _, _ => "bad-op"
    | _ => "bad-op"
  | "usets", rest =>
    match parseTs? rest with
    | some (t, x :: y :: rest) =>
      match parseHw? x, parseHw? y with
      | some x, some y =>
        if rest.isEmpty then showTs (useTransform t x y none)
        else match parseTs? rest with
          | some (v, []) => showTs (useTransform t x y (some v))
          | _ => "bad-op"
      | _, _ => "bad-op"
    | _ => "bad-op"
  | "usesym", [w, h, vw, vh, dpi, fs] =>
    -- `use` (width w, height h, `absent` allowed) of a symbol holding <rect width="50%" height="25%"/>,
    -- in a viewport vw × vh: the clip rectangle, then the size of the rect
    match parseLen? w, parseLen? h, parseF32? vw, parseF32? vh, parseF32? dpi, parseF32? fs with
    | some w, some h, some vw, some vh, some dpi, some fs =>
      let env : Resvg.Convert.LenEnv := ⟨dpi, fs⟩
      let clip := match useSymbolClip F32.rnd w h vw vh env with
        | some (cw, ch) => s!"{showSoft cw} {showSoft ch}"
        | none => "noclip"
      let v := useSymbolViewport F32.rnd w h vw vh env
      let cw := symbolChildLen F32.rnd ⟨50, .percent⟩ v.1 env
      let ch := symbolChildLen F32.rnd ⟨25, .percent⟩ v.2 env
      let child := if validLen cw && validLen ch then s!"{showSoft cw} {showSoft ch}" else "nochild"
      s!"{clip} | {child}"
    | _, _, _, _, _, _ => "bad-op"
  | "rxry", [w, h, rx, ry] =>
    match parseHw? w, parseHw? h, optHw? rx, optHw? ry with
    | some w, some h, some rx, some ry =>
      let r := clampRadii w h (resolveRxRy rx ry)
      -- convert_rect: `rx.approx_eq_ulps(&0.0, 4)` → plain rectangle path (no radii at all)
      let rxZero := r.1 == 0 || (r.1 > 0 && r.1.toBits.toNat ≤ 4)
      if rxZero then "00000000 00000000" else s!"{showHw r.1} {showHw r.2}"
    | _, _, _, _ => "bad-op"
  | "rxryobs", [w, h, rx, ry, x0, y0] =>
    -- what the path shows: first MoveTo.x = x + rx, second LineTo.y = y + height - ry;
    -- a plain rectangle (rx ≈ 0) shows x and (height + y)
    match parseHw? w, parseHw? h, optHw? rx, optHw? ry, parseHw? x0, parseHw? y0 with
    | some w, some h, some rx, some ry, some x0, some y0 =>
      let r := clampRadii w h (resolveRxRy rx ry)
      let rxZero := r.1 == 0 || (r.1 > 0 && r.1.toBits.toNat ≤ 4)
      if rxZero then s!"{showHw x0} {showHw (h + y0)}"
      -- a degenerate radius (kurbo: |r| ≤ 1e-5) turns the first arc into a line to (x + width, y + ry)
      else if r.2 ≤ 0.00001 then s!"{showHw (x0 + r.1)} {showHw (y0 + r.2)}"
      else s!"{showHw (x0 + r.1)} {showHw (y0 + h - r.2)}"
    | _, _, _, _, _, _ => "bad-op"
  | "switch", langs :: children =>
    let ls := if langs == "-" then [] else langs.splitOn ","
    let cs? := allSome (children.map fun c =>
      match c.splitOn "|" with
      | [e, x, f, l] =>
        some ({ isElement := e == "1", hasRequiredExtensions := x == "1",
                requiredFeatures := if f == "~" then none else some ((unhex? f).getD "" |>.splitOn " "),
                systemLanguage := if l == "~" then none else some (((unhex? l).getD "").splitOn "," |>.map (fun s => s.trimAscii.toString)) } : SwitchChild)
      | _ => none)
    match cs? with
    | some cs => match switchChoice cs ls with
      | some i => toString i
      | none => "none"
    | none => "bad-op"
  | _, _ => "bad-op"

end Driver
