/- Parsing / printing helpers for the line protocol. No imports outside core. -/
import Resvg.Num.F32
namespace Driver
open Resvg

def hexDigit? (c : Char) : Option Nat :=
  if '0' ≤ c ∧ c ≤ '9' then some (c.toNat - '0'.toNat)
  else if 'a' ≤ c ∧ c ≤ 'f' then some (c.toNat - 'a'.toNat + 10)
  else if 'A' ≤ c ∧ c ≤ 'F' then some (c.toNat - 'A'.toNat + 10)
  else none

def parseHex? (s : String) : Option Nat :=
  if s.isEmpty then none else
  s.toList.foldl (fun acc c => match acc, hexDigit? c with
    | some a, some d => some (a * 16 + d)
    | _, _ => none) (some 0)

def hexOf (n : Nat) (width : Nat := 8) : String :=
  let ds := (Nat.toDigits 16 n)
  String.ofList (List.replicate (width - ds.length) '0' ++ ds)

/-- f32 bits (8 hex digits) → exact rational; none for inf/nan or bad syntax -/
def parseF32? (s : String) : Option Rat := do
  let n ← parseHex? s
  F32.decode (UInt32.ofNat n)

def parseBits? (s : String) : Option UInt32 := do
  let n ← parseHex? s
  pure (UInt32.ofNat n)

def showBits (q : Rat) : String := hexOf (F32.encode q).toNat

def parseNat? (s : String) : Option Nat := s.toNat?
def parseInt? (s : String) : Option Int := s.toInt?

def joinSp (xs : List String) : String := " ".intercalate xs

def allSome {α} : List (Option α) → Option (List α)
  | [] => some []
  | none :: _ => none
  | some x :: xs => (allSome xs).map (x :: ·)

end Driver
