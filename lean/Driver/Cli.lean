import Driver.Util
import Resvg.Cli.FitTo
namespace Driver
open Resvg Resvg.Cli

def optNat? (s : String) : Option (Option Nat) := if s == "-" then some none else s.toNat?.map some
def optF32? (s : String) : Option (Option Rat) := if s == "-" then some none else (parseF32? s).map some

def handleCli (op : String) (args : List String) : String :=
  match op, args with
  | "fitto", [dw, dh, w, h, z] =>
    match parseF32? dw, parseF32? dh, optNat? w, optNat? h, optF32? z with
    | some dw, some dh, some w, some h, some z =>
      match fitToSize F32.rnd (fitToOf w h z) (toIntSize dw dh) with
      | some (ow, oh) => s!"{ow} {oh}"
      | none => "err"
    | _, _, _, _, _ => "bad-op"
  | _, _ => "bad-op"

end Driver
