import Driver.Util
import Resvg.Cli.FitTo
namespace Driver
open Resvg Resvg.Cli

def optNat? (s : String) : Option (Option Nat) := if s == "-" then some none else s.toNat?.map some
def optF32? (s : String) : Option (Option Rat) := if s == "-" then some none else (parseF32? s).map some

def handleCli (op : String) (args : List String) : String :=
  match op, args with
  | "fitto", [dw, dh, w, h, z] =>
    match parseF32? dw, parseF32? dh, optNat? w, optNat? h, optF32? z with
    | some dw, some dh, some w, some h, some z =>
      match fitToSize F32.rnd (fitToOf w h z) (toIntSize dw dh) with
      | some (ow, oh) => s!"{ow} {oh}"
      | none => "err"
    | _, _, _, _, _ => "bad-op"
  | "exportplan", [pw, ph, bx, by_, bw, bh, w, h, z, pg] =>
    match pw.toNat?, ph.toNat?, parseF32? bx, parseF32? by_, parseF32? bw, parseF32? bh, optNat? w, optNat? h, optF32? z with
    | some pw, some ph, some bx, some by_, some bw, some bh, some w, some h, some z =>
      match exportPlan F32.rnd (fitToOf w h z) (pw, ph) bx by_ bw bh (pg == "1") with
      | some p =>
        let (x0, y0, x1, y1) := p.painted bw bh
        s!"{p.canvas.1} {p.canvas.2} {x0} {y0} {x1} {y1}"
      | none => "err"
    | _, _, _, _, _, _, _, _, _ => "bad-op"
  | _, _ => "bad-op"

end Driver
