import Driver.Util
import Resvg.Render.Pixel
namespace Driver
open Resvg Resvg.Pixel

def showPx (p : Px) : String := s!"{p.r} {p.g} {p.b} {p.a}"

def parsePx? : List String → Option (Px × List String)
  | r :: g :: b :: a :: rest => do
    let r ← r.toNat?; let g ← g.toNat?; let b ← b.toNat?; let a ← a.toNat?
    pure ({ r, g, b, a }, rest)
  | _ => none

def row (f : Nat → Nat) : String := joinSp ((List.range 256).map (fun c => toString (f c)))

/-- `px …` requests -/
def handlePx (args : List String) : String :=
  match args with
  | ["mul", a] => match a.toNat? with
    | some a => row (fun c => mulAlpha c a)
    | none => "bad-op"
  | ["demul", a] => match a.toNat? with
    | some a => row (fun c => demulAlpha c a)
    | none => "bad-op"
  | ["mulrat", a] => match a.toNat? with
    | some a => row (fun c => mulAlphaRat c a)
    | none => "bad-op"
  | ["demulrat", a] => match a.toNat? with
    | some a => row (fun c => demulAlphaRat c a)
    | none => "bad-op"
  | ["tolin"] => row toLinear
  | ["tosrgb"] => row toSrgb
  | ["pixlin", a] => match a.toNat? with
    | some a => row (fun c => pixIntoLinear c a)
    | none => "bad-op"
  | ["pixsrgb", a] => match a.toNat? with
    | some a => row (fun c => pixIntoSrgb c a)
    | none => "bad-op"
  | ["lightalpha", kind, r, g, b] =>
    match r.toNat?, g.toNat?, b.toNat? with
    | some r, some g, some b => toString (lightingPixel (kind == "specular") r g b).a
    | _, _, _ => "bad-op"
  | "arith" :: k1 :: k2 :: k3 :: k4 :: rest =>
    match parseF32? k1, parseF32? k2, parseF32? k3, parseF32? k4, parsePx? rest with
    | some k1, some k2, some k3, some k4, some (p, rest) =>
      match parsePx? rest with
      | some (q, []) => match arithPixel F32.rnd k1 k2 k3 k4 p q with
        | none => "skip"
        | some o => showPx o
      | _ => "bad-op"
    | _, _, _, _, _ => "bad-op"
  | ["linear", slope, icpt] =>
    match parseF32? slope, parseF32? icpt with
    | some s, some i => row (transferLinear F32.rnd s i)
    | _, _ => "bad-op"
  | "discrete" :: vals =>
    match allSome (vals.map parseF32?) with
    | some (v :: vs) => row (transferDiscrete F32.rnd (v :: vs))
    | _ => "bad-op"
  | "table" :: vals =>
    match allSome (vals.map parseF32?) with
    | some (v :: vs) => row (transferTable F32.rnd (v :: vs))
    | _ => "bad-op"
  | "matrix" :: rest =>
    match parsePx? rest with
    | some (p, ms) => match allSome (ms.map parseF32?) with
      | some m => if m.length = 20 then showPx (colorMatrix F32.rnd m p) else "bad-op"
      | none => "bad-op"
    | none => "bad-op"
  | _ => "bad-op"

end Driver
