import Driver.Util
import Driver.Geom
import Driver.BBox
import Driver.Cascade
import Resvg.Render.Export
namespace Driver
open Resvg Resvg.Geom Resvg.Render

mutual
/-- node := `n <hex id> [ node* ]` -/
partial def parseIdNode : List String → Option (IdNode × List String)
  | "n" :: id :: "[" :: rest =>
    match unhex? (if id == "-" then "" else id), parseIdNodes rest with
    | some s, some (kids, rest2) => some (.mk s kids, rest2)
    | _, _ => none
  | _ => none
partial def parseIdNodes : List String → Option (IdNodes × List String)
  | "]" :: rest => some (.nil, rest)
  | toks =>
    match parseIdNode toks with
    | some (n, rest) =>
      match parseIdNodes rest with
      | some (l, rest2) => some (.cons n l, rest2)
      | none => none
    | none => none
end

def handleExport (op : String) (args : List String) : String :=
  match op, args with
  | "exportts", [user, bx, byy, anc] =>
    match parseTsCsv? user, parseHw? bx, parseHw? byy, parseTsCsv? anc with
    | some u, some bx, some byy, some a => showTs (exportTransform u bx byy a)
    | _, _, _, _ => "bad-op"
  | "canvas", [l, t, r, b, sc] =>
    -- the box is the node's absolute box (f32 bits); answer: refused, or the canvas the scale asks for
    match parseF32? l, parseF32? t, parseF32? r, parseF32? b, parseF32? sc with
    | some l, some t, some r, some b, some sc =>
      match renderNodeCanvas l t r b sc with
      | some _ => "some"
      | none => "none"
    | _, _, _, _, _ => "bad-op"
  | "findid", id :: "[" :: rest =>
    match unhex? (if id == "-" then "" else id), parseIdNodes rest with
    | some id, some (t, []) =>
      match findById id t 0 with
      | some p => "/".intercalate (p.map toString)
      | none => "none"
    | _, _ => "bad-op"
  | _, _ => "bad-op"

end Driver
